"""Tiny evaluator of *arithmetic expression syntax* over integers (padding
formulas).  It evaluates an `ast` expression with a given environment; it never
imports or calls repository code."""

import ast
import operator

from .loader import norm

_BIN = {ast.Add: operator.add, ast.Sub: operator.sub, ast.Mult: operator.mul, ast.Mod: operator.mod,
        ast.FloorDiv: operator.floordiv, ast.BitAnd: operator.and_, ast.BitOr: operator.or_,
        ast.LShift: operator.lshift, ast.RShift: operator.rshift, ast.Pow: operator.pow}


class CannotEval(Exception):
    pass


def ev(node, env, calls=None):
    """env: normalised-source -> int ; calls: callable(node, ev) -> int or None"""
    src = norm(node)
    if src in env:
        return env[src]
    if isinstance(node, ast.Constant) and isinstance(node.value, int) and not isinstance(node.value, bool):
        return node.value
    if isinstance(node, ast.UnaryOp) and isinstance(node.op, ast.USub):
        return -ev(node.operand, env, calls)
    if isinstance(node, ast.UnaryOp) and isinstance(node.op, ast.Invert):
        return ~ev(node.operand, env, calls)
    if isinstance(node, ast.BinOp) and type(node.op) in _BIN:
        return _BIN[type(node.op)](ev(node.left, env, calls), ev(node.right, env, calls))
    if isinstance(node, ast.Call) and calls is not None:
        r = calls(node, lambda n: ev(n, env, calls))
        if r is not None:
            return r
    raise CannotEval(src)
