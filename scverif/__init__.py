"""scverif - static analysis of smrg-lm/sc3 (source only, never imports sc3)."""
