"""Findings, known-findings matching, evidence files, exit codes."""

import ast
import json
import os
import time

from .loader import AnalysisError, norm, qualname_of

VERIF_DIR = os.path.dirname(os.path.dirname(os.path.abspath(__file__)))


def _load_json(name, default):
    p = os.path.join(VERIF_DIR, name)
    if not os.path.exists(p):
        return default
    with open(p) as f:
        return json.load(f)


class Obligation:
    __slots__ = ('rule', 'key', 'ok', 'msg', 'file', 'line', 'nontrivial')

    def __init__(self, rule, key, ok, msg, file, line, nontrivial):
        self.rule = rule
        self.key = key
        self.ok = ok
        self.msg = msg
        self.file = file
        self.line = line
        self.nontrivial = nontrivial

    def as_dict(self):
        return {'rule': self.rule, 'construct': self.key, 'verdict': 'holds' if self.ok else 'VIOLATED',
                'what': self.msg, 'where': f'{self.file}:{self.line}' if self.file else None}


class Ctx:
    """Per-property collection of obligations.

    ob(rule, key, ok, msg, node=.., mod=..) records one rule instance; a failed
    one is a finding.  The construct key never contains a line number."""

    def __init__(self, pid, repo, tier='quick'):
        self.pid = pid
        self.repo = repo
        self.tier = tier
        self.obligations = []
        self.notes = []
        self.assumptions = []
        self.trusted = []
        self.rules_text = {}
        self.unresolved_calls = 0
        self.resolved_calls = 0
        self.extra = {}

    def rule(self, rid, text):
        self.rules_text[rid] = text

    def ob(self, rule, key, ok, msg, node=None, mod=None, nontrivial=True):
        file = line = None
        if mod is not None:
            file = mod.relpath
        if node is not None:
            line = getattr(node, 'lineno', None)
        o = Obligation(rule, key, bool(ok), msg, file, line, nontrivial)
        self.obligations.append(o)
        return bool(ok)

    def key(self, mod, node, construct=None):
        """module:qualname:normalised-construct"""
        q = qualname_of(node) if node is not None else '<module>'
        c = construct if construct is not None else norm(node)
        return f'{mod.name}:{q}:{c}'

    def require(self, cond, rule, reason):
        if not cond:
            raise AnalysisError(f'{self.pid}.{rule}' if not rule.startswith(self.pid) else rule, reason)
        return cond

    def note(self, text):
        self.notes.append(text)

    def assume(self, text):
        if text not in self.assumptions:
            self.assumptions.append(text)

    def trust(self, text):
        if text not in self.trusted:
            self.trusted.append(text)

    # ------------------------------------------------------------------
    def findings(self):
        seen = {}
        for o in self.obligations:
            if not o.ok:
                seen.setdefault((o.rule, o.key), o)
        return list(seen.values())

    def per_rule(self):
        d = {}
        for o in self.obligations:
            r = d.setdefault(o.rule, {'instances': 0, 'held': 0})
            r['instances'] += 1
            r['held'] += 1 if o.ok else 0
        return d


class SubCtx:
    """Runs another property's rule functions under one rule id of this property: a property whose behaviour rests on a
    component that another property's rules decide (the task queue under every clock) re-states those obligations as its own,
    so that its check fails on its own when the component is broken."""

    def __init__(self, ctx, rid, text):
        self._ctx = ctx
        self._rid = rid
        ctx.rule(rid, text)

    def rule(self, rid, text):
        pass

    def ob(self, rule, key, ok, msg, node=None, mod=None, nontrivial=True):
        if not ok and any(k['rule'] == rule and k['key'] == key for k in _load_json('known_findings.json', {'known': []}).get('known', [])):
            return False          # a recorded finding of the property the rule belongs to: reported there, not re-stated here
        return self._ctx.ob(self._rid, f'[{rule}] {key}', ok, msg, node, mod, nontrivial)

    def require(self, cond, rule, reason):
        return self._ctx.require(cond, self._rid, reason)

    def __getattr__(self, name):
        return getattr(self._ctx, name)


def check_expectations(ctx):
    exp = _load_json('expectations.json', {}).get(ctx.pid, {})
    pr = ctx.per_rule()
    for rule, minimum in exp.items():
        have = pr.get(rule, {'instances': 0})['instances']
        if have < minimum:
            raise AnalysisError(rule, f'rule matched {have} instances, fewer than the {minimum} '
                                      f'confirmed by hand (vacuous pass refused)')


def finish(ctx, t0, seed, explanation, level_note=None, selftest=None):
    """Write evidence, print lines, return exit code."""
    known = _load_json('known_findings.json', {'known': [], 'fixed': []})
    known_keys = {}
    for k in known.get('known', []):
        if k['property'] == ctx.pid:
            known_keys[(k['rule'], k['key'])] = k
    findings = ctx.findings()
    violations = []
    knowns = []
    for f in findings:
        k = known_keys.get((f.rule, f.key))
        if k is not None:
            knowns.append((f, k))
        else:
            violations.append(f)
    stale = [k for kk, k in known_keys.items() if kk not in {(f.rule, f.key) for f in findings}]

    rep_dir = os.path.join(VERIF_DIR, 'reports', ctx.pid)
    os.makedirs(rep_dir, exist_ok=True)
    for fn in os.listdir(rep_dir):
        if fn.endswith('.json'):
            os.unlink(os.path.join(rep_dir, fn))
    lines = []
    for i, f in enumerate(violations):
        p = os.path.join(rep_dir, f'{i}.json')
        with open(p, 'w') as fh:
            json.dump({'property': ctx.pid, 'rule': f.rule, 'rule_text': ctx.rules_text.get(f.rule, ''),
                       'construct': f.key, 'message': f.msg, 'file': f.file, 'line': f.line,
                       'repo_digest': ctx.repo.digest()}, fh, indent=1)
        lines.append(f'VIOLATION property={ctx.pid} replay={p}')
        lines.append(f'  rule={f.rule} at {f.file}:{f.line} construct={f.key}')
        lines.append(f'  {f.msg}')
    for f, k in knowns:
        lines.append(f'KNOWN-FINDING: property={ctx.pid} rule={f.rule} {f.key} -- {k.get("what", f.msg)}')
    for k in stale:
        lines.append(f'note: known finding no longer observed (repaired?): {k["rule"]} {k["key"]}')

    pr = ctx.per_rule()
    obligations = len(ctx.obligations)
    discharged = sum(1 for o in ctx.obligations if o.ok)
    distinct = len({(o.rule, o.key) for o in ctx.obligations if o.nontrivial})
    # samples: deterministic choice by seed: spread over rules, failures first
    samples = []
    byrule = {}
    for o in ctx.obligations:
        byrule.setdefault(o.rule, []).append(o)
    for r in sorted(byrule):
        lst = byrule[r]
        bad = [o for o in lst if not o.ok]
        good = [o for o in lst if o.ok]
        pick = bad[:3]
        if good:
            step = max(1, len(good) // 4)
            for j in range(min(4, len(good))):
                pick.append(good[(seed + j * step) % len(good)])
        samples.extend(o.as_dict() for o in pick)
    samples = samples[:80]

    ev = {
        'property_id': ctx.pid,
        'tier': ctx.tier,
        'seed': seed,
        'level': 'other',
        'coverage': {
            'explanation': explanation,
            'obligations': obligations,
            'discharged': discharged,
            'evaluations': obligations,
            'distinct_nontrivial': distinct,
            'rule': 'one obligation per (rule, construct) instance found in the current /repo source; '
                    'non-trivial = the rule precondition matched a real construct (not a vacuous pass); '
                    'distinct = distinct (rule, construct key)',
            'samples': samples or [{'note': 'no obligations'}],
            'per_rule': pr,
            'rules': ctx.rules_text,
            'files_analysed': len(ctx.repo.modules),
            'repo_digest': ctx.repo.digest(),
            'checker_cmd': f'/venv/bin/python -m scverif check {ctx.pid} --tier {ctx.tier}',
            'trusted_base': ['CPython ast module (parser)', 'reference tables under scverif/refs/'] + ctx.trusted,
            'exhaustive': True,
            'known_findings': [f'{f.rule} {f.key}' for f, _ in knowns],
            'notes': ctx.notes,
        },
        'assumptions': ctx.assumptions + ([level_note] if level_note else []),
        'wall_s': round(time.time() - t0, 3),
        'violations': len(violations),
    }
    if selftest is not None:
        ev['coverage']['selftest'] = selftest
    ev['coverage'].update(ctx.extra)
    ev_dir = os.path.join(VERIF_DIR, 'evidence')
    os.makedirs(ev_dir, exist_ok=True)
    with open(os.path.join(ev_dir, f'{ctx.pid}.json'), 'w') as fh:
        json.dump(ev, fh, indent=1, sort_keys=False)

    for ln in lines:
        print(ln)
    print(f'{ctx.pid}: tier={ctx.tier} obligations={obligations} discharged={discharged} '
          f'violations={len(violations)} known={len(knowns)} files={len(ctx.repo.modules)} '
          f'rules={",".join(f"{r}:{v['instances']}" for r, v in sorted(pr.items()))}')
    return 1 if violations else 0
