"""CLI:  python -m scverif check <id>|all [--tier quick|thorough]
         python -m scverif explain <report.json>
         python -m scverif selftest [<id> ...]
"""

import argparse
import importlib
import json
import os
import sys
import time
import traceback

from .loader import Repo, AnalysisError
from . import report

PIDS = [f'C{n:02d}' for n in range(1, 21)]


def load_rule_module(pid):
    return importlib.import_module(f'scverif.rules.{pid.lower()}')


def run_rules(pid, repo, tier):
    mod = load_rule_module(pid)
    ctx = report.Ctx(pid, repo, tier)
    mod.run(ctx)
    return ctx, mod


def check_one(pid, tier, seed, repo=None):
    t0 = time.time()
    try:
        repo = repo or Repo()
        ctx, mod = run_rules(pid, repo, tier)
        report.check_expectations(ctx)
        selftest = None
        if tier == 'thorough':
            from . import mutants
            selftest = mutants.selftest(pid, jobs=int(os.environ.get('VERIF_JOBS', '16')))
            bad = [r for r in selftest['results'] if r['status'] in ('MISSED', 'FALSE-ALARM', 'ERROR')]
            if bad:
                for r in bad:
                    print(f'ANALYSIS-ERROR property={pid} rule={r["rule"]} reason=selftest {r["status"]}: '
                          f'{r["name"]} {r.get("detail", "")}')
                # still write evidence so the failure is diagnosable
                report.finish(ctx, t0, seed, mod.EXPLANATION, getattr(mod, 'LEVEL_NOTE', None), selftest)
                return 2
            from . import sweep
            sw = sweep.run(pid, jobs=int(os.environ.get('VERIF_JOBS', '16')))
            selftest['rename_sweep'] = sw
            if sw['false_alarms']:
                for fa in sw['false_alarms']:
                    print(f'ANALYSIS-ERROR property={pid} rule=rename-sweep reason={fa["status"]} on a pure rename of the locals of '
                          f'{fa["file"]}: {fa["findings"]}')
                report.finish(ctx, t0, seed, mod.EXPLANATION, getattr(mod, 'LEVEL_NOTE', None), selftest)
                return 2
        return report.finish(ctx, t0, seed, mod.EXPLANATION, getattr(mod, 'LEVEL_NOTE', None), selftest)
    except AnalysisError as e:
        print(f'ANALYSIS-ERROR property={pid} rule={e.rule} reason={e.reason}')
        return 2
    except Exception:
        traceback.print_exc()
        print(f'ANALYSIS-ERROR property={pid} rule=internal reason=uncaught exception in the checker')
        return 2


def main(argv=None):
    ap = argparse.ArgumentParser(prog='scverif')
    sub = ap.add_subparsers(dest='cmd', required=True)
    c = sub.add_parser('check')
    c.add_argument('pid')
    c.add_argument('--tier', default=None, choices=['quick', 'thorough'])
    e = sub.add_parser('explain')
    e.add_argument('path')
    s = sub.add_parser('selftest')
    s.add_argument('pids', nargs='*')
    s.add_argument('-v', action='store_true')
    args = ap.parse_args(argv)

    seed = int(os.environ.get('VERIF_SEED', '0') or 0)
    if args.cmd == 'check':
        tier = args.tier or os.environ.get('VERIF_TIER') or 'quick'
        if tier not in ('quick', 'thorough'):
            tier = 'quick'
        if args.pid == 'all':
            try:
                repo = Repo()
            except AnalysisError as e:
                print(f'ANALYSIS-ERROR property=all rule={e.rule} reason={e.reason}')
                return 2
            rc = 0
            for pid in PIDS:
                try:
                    load_rule_module(pid)
                except ModuleNotFoundError:
                    continue
                rc = max(rc, check_one(pid, tier, seed, repo))
            return rc
        return check_one(args.pid, tier, seed)
    if args.cmd == 'explain':
        with open(args.path) as f:
            rep = json.load(f)
        pid = rep['property']
        print(json.dumps(rep, indent=1))
        repo = Repo()
        ctx, mod = run_rules(pid, repo, 'quick')
        still = [f for f in ctx.findings() if f.rule == rep['rule'] and f.key == rep['construct']]
        if still:
            f = still[0]
            print(f'STILL PRESENT on the current tree: {f.file}:{f.line}: {f.msg}')
            print(f'rule {f.rule}: {ctx.rules_text.get(f.rule, "")}')
            return 1
        print('not present on the current tree')
        return 0
    if args.cmd == 'selftest':
        from . import mutants
        rc = 0
        for pid in (args.pids or PIDS):
            try:
                load_rule_module(pid)
            except ModuleNotFoundError:
                continue
            res = mutants.selftest(pid, jobs=int(os.environ.get('VERIF_JOBS', '16')))
            for r in res['results']:
                if args.v or r['status'] not in ('caught', 'silent-ok'):
                    print(pid, r['status'], r['rule'], r['name'], r.get('detail', ''))
                if r['status'] in ('MISSED', 'FALSE-ALARM', 'ERROR'):
                    rc = 2
            print(f'{pid}: {res["summary"]}')
        return rc
    return 2


if __name__ == '__main__':
    try:
        rc = main()
    except SystemExit:
        raise
    except Exception:
        traceback.print_exc()
        print('ANALYSIS-ERROR property=? rule=internal reason=uncaught exception')
        rc = 2
    sys.stdout.flush()
    sys.exit(rc)
