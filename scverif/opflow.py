"""Path-sensitive operand-provenance analysis for operator composition classes.

A composition object (UnopX/BinopX/NaropX for functions, streams, patterns) stores its operands in the fields
`a`, `b` / `a`, `*args` and later applies `self.selector(...)` -- or hands `self.selector` and the operands to a
sibling class.  On every path through every method, the positional arguments of such a call must derive from the
operand fields *in constructor order*: [a], [a, b] or [a, *args] (args element-wise, unfiltered, in order).

Abstract values ("origins"):
  ('f', name)          derived one-to-one from operand field `name` (the field, a stream of it, its next value, its call)
  ('seq', name, True)  a sequence derived element-wise and in order from the tuple field `name`
  ('seq', name, False) derived from it but filtered / reordered / partially
  ('elem', name)       one element of that tuple (inside a comprehension or loop)
  ('list', [...])      a list literal / list built by append, with the origins of its items
  ('mix', frozenset)   different origins on the two arms of a conditional expression
  None                 anything else
No value is computed; only these tags flow through assignments along enumerated paths."""

import ast

from .flow import enumerate_paths
from .loader import norm
from . import util as U

UNWRAP_FUNCS = {'stream', 'iter', 'next', 'list', 'tuple', 'as_stream'}


class Env(dict):
    pass


def origin(e, env, fields):
    if e is None:
        return None
    if isinstance(e, ast.Attribute) and U.is_self_attr(e) and e.attr in fields:
        return ('seq', e.attr, True) if fields[e.attr] == 'seq' else ('f', e.attr)
    if isinstance(e, ast.Name):
        return env.get(e.id)
    if isinstance(e, ast.Starred):
        return origin(e.value, env, fields)
    if isinstance(e, ast.Await) or isinstance(e, ast.YieldFrom) or isinstance(e, ast.Yield):
        return None
    if isinstance(e, ast.IfExp):
        a, b = origin(e.body, env, fields), origin(e.orelse, env, fields)
        if a == b:
            return a
        return ('mix', frozenset([repr(a), repr(b)]))
    if isinstance(e, ast.Call):
        fn = e.func
        # stm.stream(X), stream(X), iter(X), next(X), list(X), tuple(X)
        last = fn.attr if isinstance(fn, ast.Attribute) else (fn.id if isinstance(fn, ast.Name) else None)
        if last in UNWRAP_FUNCS and len(e.args) >= 1 and not (isinstance(fn, ast.Attribute) and origin(fn.value, env, fields)):
            return origin(e.args[0], env, fields)
        # X.method(...)  where X derives from an operand: next(), value(), __call__ ...
        if isinstance(fn, ast.Attribute):
            o = origin(fn.value, env, fields)
            if o is not None and o[0] in ('f', 'elem'):
                return o
        # X(...) : calling the operand itself
        o = origin(fn, env, fields)
        if o is not None and o[0] in ('f', 'elem'):
            return o
        return None
    if isinstance(e, (ast.ListComp, ast.GeneratorExp)):
        if len(e.generators) != 1:
            return None
        g = e.generators[0]
        src = origin(g.iter, env, fields)
        if src is None or src[0] != 'seq':
            return None
        if not isinstance(g.target, ast.Name):
            return ('seq', src[1], False)
        env2 = Env(env)
        env2[g.target.id] = ('elem', src[1])
        eo = origin(e.elt, env2, fields)
        exact = src[2] and not g.ifs and eo == ('elem', src[1])
        return ('seq', src[1], exact)
    if isinstance(e, (ast.List, ast.Tuple)):
        return ('list', [origin(x, env, fields) for x in e.elts])
    if isinstance(e, ast.Subscript):
        o = origin(e.value, env, fields)
        if o is not None and o[0] == 'seq':
            return ('seq', o[1], False) if isinstance(e.slice, ast.Slice) else ('elem', o[1])
        return None
    return None


def _assign(target, value_origin, value_node, env, fields):
    if isinstance(target, ast.Name):
        env[target.id] = value_origin
    elif isinstance(target, (ast.Tuple, ast.List)):
        if isinstance(value_node, (ast.Tuple, ast.List)) and len(value_node.elts) == len(target.elts):
            for t, v in zip(target.elts, value_node.elts):
                _assign(t, origin(v, env, fields), v, env, fields)
        else:
            for t in target.elts:
                _assign(t, None, None, env, fields)


def selector_calls(fnode, fields, repo=None, unroll=1):
    """Yield (call, positional-origins, is_delegation) for every `self.selector(...)` call and every call that passes
    `self.selector` as its first argument, once per distinct (call, origins) over all enumerated paths."""
    seen = set()
    out = []
    for ev, outc in enumerate_paths(fnode, unroll=unroll, repo=repo, max_paths=4000):
        env = Env()
        loop_iters = {}
        for kind, node, extra in ev:
            exprs = []
            if kind == 'stmt':
                exprs = [node]
            elif kind == 'test':
                exprs = [node]
            elif kind in ('return', 'raise'):
                exprs = [node]
            elif kind == 'for':
                if extra:
                    src = origin(node.iter, env, fields)
                    if isinstance(node.target, ast.Name):
                        env[node.target.id] = ('elem', src[1]) if src is not None and src[0] == 'seq' and src[2] else None
                continue
            else:
                continue
            for x in exprs:
                for c in ast.walk(x):
                    if not isinstance(c, ast.Call):
                        continue
                    direct = U.is_self_attr(c.func, 'selector')
                    deleg = bool(c.args) and U.is_self_attr(c.args[0], 'selector')
                    if not (direct or deleg):
                        continue
                    args = c.args if direct else c.args[1:]
                    pos = []
                    for a in args:
                        o = origin(a, env, fields)
                        if isinstance(a, ast.Starred):
                            if o is not None and o[0] == 'list':
                                # a list built by appending one element per iteration of a loop over the tuple field
                                items = o[1]
                                names = {i[1] for i in items if i is not None and i[0] == 'elem'}
                                if len(names) == 1 and all(i is not None and i[0] == 'elem' for i in items):
                                    o = ('seq', names.pop(), True)
                                elif not items:
                                    o = ('seq*empty',)
                            pos.append(('*', o))
                        else:
                            pos.append(o)
                    key = (id(c), repr(pos))
                    if key not in seen:
                        seen.add(key)
                        out.append((c, pos, deleg))
            # effects of the statement on the environment
            if kind == 'stmt':
                if isinstance(node, ast.Assign):
                    vo = origin(node.value, env, fields)
                    for t in node.targets:
                        _assign(t, vo, node.value, env, fields)
                elif isinstance(node, ast.AnnAssign) and node.value is not None:
                    _assign(node.target, origin(node.value, env, fields), node.value, env, fields)
                elif isinstance(node, ast.AugAssign) and isinstance(node.target, ast.Name):
                    env[node.target.id] = None
                elif isinstance(node, ast.Expr) and isinstance(node.value, ast.Call) and isinstance(node.value.func, ast.Attribute) \
                        and node.value.func.attr == 'append' and isinstance(node.value.func.value, ast.Name):
                    lst = env.get(node.value.func.value.id)
                    if lst is not None and lst[0] == 'list':
                        env[node.value.func.value.id] = ('list', lst[1] + [origin(node.value.args[0], env, fields)])
                    else:
                        env[node.value.func.value.id] = None
    return out


def expected_for(fields_order, fields):
    exp = []
    for f in fields_order:
        exp.append(('*', ('seq', f, True)) if fields[f] == 'seq' else ('f', f))
    return exp


def matches(pos, exp):
    if pos == exp:
        return True
    # an empty starred list on a path where the loop did not run stands for the (empty) tuple
    if len(pos) == len(exp):
        ok = True
        for p, e in zip(pos, exp):
            if p == e:
                continue
            if isinstance(e, tuple) and e[0] == '*' and isinstance(p, tuple) and p[0] == '*' and p[1] == ('seq*empty',):
                continue
            ok = False
        return ok
    return False


def describe(pos):
    def one(o):
        if o is None:
            return '?'
        if o[0] == '*':
            return '*' + one(o[1])
        if o[0] == 'f':
            return o[1]
        if o[0] == 'seq':
            return f'{o[1]}[in order]' if o[2] else f'{o[1]}[filtered/reordered]'
        if o[0] == 'elem':
            return f'{o[1]}[i]'
        if o[0] == 'list':
            return '[' + ', '.join(one(i) for i in o[1]) + ']'
        if o[0] == 'mix':
            return 'either(' + ' | '.join(sorted(o[1])) + ')'
        return str(o)
    return '(' + ', '.join(one(o) for o in pos) + ')'
