"""Behaviour-preserving sweeps (thorough tier): every `return E` of a file becomes `t = E; return t`, and: for each source file of /repo/sc3, every local variable of every
function is renamed (x -> x_rn) in memory and the property's rules are run on that variant.  Any finding that the
un-renamed (only re-printed) file does not have is a false alarm of a text-bound clause, and fails the thorough run."""

import ast
import os
from concurrent.futures import ProcessPoolExecutor

from .loader import repo_root


class Renamer(ast.NodeTransformer):
    def __init__(self):
        self.names = None
        self.count = 0

    @staticmethod
    def _locals_of(fn):
        a = fn.args
        banned = {x.arg for x in a.posonlyargs + a.args + a.kwonlyargs}
        if a.vararg:
            banned.add(a.vararg.arg)
        if a.kwarg:
            banned.add(a.kwarg.arg)
        stores = set()
        for n in ast.walk(fn):
            if isinstance(n, (ast.Global, ast.Nonlocal)):
                banned |= set(n.names)
            elif isinstance(n, (ast.FunctionDef, ast.AsyncFunctionDef, ast.Lambda)) and n is not fn:
                b = n.args
                banned |= {x.arg for x in b.posonlyargs + b.args + b.kwonlyargs}
                if b.vararg:
                    banned.add(b.vararg.arg)
                if b.kwarg:
                    banned.add(b.kwarg.arg)
                if not isinstance(n, ast.Lambda):
                    banned.add(n.name)
            elif isinstance(n, ast.ClassDef):
                banned.add(n.name)
            elif isinstance(n, (ast.Import, ast.ImportFrom)):
                for al in n.names:
                    banned.add((al.asname or al.name).split('.')[0])
            elif isinstance(n, ast.ExceptHandler) and n.name:
                banned.add(n.name)
            elif isinstance(n, ast.Name) and isinstance(n.ctx, ast.Store):
                stores.add(n.id)
            elif isinstance(n, ast.Call) and isinstance(n.func, ast.Name) and n.func.id in ('locals', 'vars', 'eval', 'exec'):
                return set()
        return {s for s in stores - banned if not (s.startswith('__') and s.endswith('__'))}

    def visit_FunctionDef(self, node):
        if self.names is not None:
            self.generic_visit(node)
            return node
        self.names = self._locals_of(node)
        self.count += len(self.names)
        self.generic_visit(node)
        self.names = None
        return node
    visit_AsyncFunctionDef = visit_FunctionDef

    def visit_Name(self, node):
        if self.names and node.id in self.names:
            node.id = node.id + '_rn'
        return node


class ReturnTemp(ast.NodeTransformer):
    """`return E` -> `rv_ = E; return rv_` for every return of every outermost function (a temporary introduced by a refactoring)"""

    def __init__(self):
        self.count = 0
        self.depth = 0

    def visit_FunctionDef(self, node):
        self.depth += 1
        self.generic_visit(node)
        self.depth -= 1
        return node
    visit_AsyncFunctionDef = visit_FunctionDef

    def visit_Lambda(self, node):
        return node

    def visit_Return(self, node):
        if self.depth != 1 or node.value is None or isinstance(node.value, (ast.Name, ast.Constant)):
            return node
        self.count += 1
        name = f'rv{self.count}_'
        a = ast.Assign(targets=[ast.Name(id=name, ctx=ast.Store())], value=node.value)
        r = ast.Return(value=ast.Name(id=name, ctx=ast.Load()))
        return [ast.copy_location(a, node), ast.copy_location(r, node)]


class Annotator(ast.NodeTransformer):
    """adds a docstring to every function that has none, a `-> object` return annotation and `: object` parameter annotations"""

    def __init__(self):
        self.count = 0

    def visit_FunctionDef(self, node):
        self.generic_visit(node)
        has_doc = bool(node.body) and isinstance(node.body[0], ast.Expr) and isinstance(node.body[0].value, ast.Constant) \
            and isinstance(node.body[0].value.value, str)
        if not has_doc:
            node.body.insert(0, ast.Expr(value=ast.Constant(value='Documented by a later edit.')))
            self.count += 1
        a = node.args
        for x in a.posonlyargs + a.args + a.kwonlyargs:
            if x.annotation is None and x.arg not in ('self', 'cls'):
                x.annotation = ast.Name(id='object', ctx=ast.Load())
                self.count += 1
        if node.returns is None and node.name != '__init__':
            node.returns = ast.Name(id='object', ctx=ast.Load())
        return node
    visit_AsyncFunctionDef = visit_FunctionDef


def annotated_variant(root, relpath):
    with open(os.path.join(root, relpath), encoding='utf-8') as f:
        tree = ast.parse(f.read())
    t = Annotator()
    t.visit(tree)
    ast.fix_missing_locations(tree)
    return ast.unparse(tree), t.count


class Respell(ast.NodeTransformer):
    """other spellings of the same statement: `x op= e` -> `x = x op e`; `if not c: A else: B` -> `if c: B else: A`;
    `a < b` -> `b > a` (and <=, >, >= likewise) unless the right operand is a literal"""
    FLIP = {ast.Lt: ast.Gt, ast.Gt: ast.Lt, ast.LtE: ast.GtE, ast.GtE: ast.LtE}

    def __init__(self):
        self.count = 0

    def visit_AugAssign(self, node):
        self.generic_visit(node)
        if isinstance(node.target, (ast.Name, ast.Attribute)) and not any(
                isinstance(y, (ast.List, ast.ListComp, ast.Tuple, ast.Dict, ast.Set)) or
                (isinstance(y, ast.Call) and isinstance(y.func, (ast.Name, ast.Attribute)) and
                 (y.func.id if isinstance(y.func, ast.Name) else y.func.attr) in ('list', 'as_list', 'tuple', 'dict', 'set'))
                for y in ast.walk(node.value)):       # in-place growth of a container is not the same statement as a re-binding
            import copy
            self.count += 1
            left = copy.deepcopy(node.target)
            for x in ast.walk(left):
                if hasattr(x, 'ctx'):
                    x.ctx = ast.Load()
            return ast.copy_location(ast.Assign(targets=[node.target], value=ast.BinOp(left=left, op=node.op, right=node.value)), node)
        return node

    def visit_If(self, node):
        self.generic_visit(node)
        if node.orelse and not (len(node.orelse) == 1 and isinstance(node.orelse[0], ast.If)) \
                and isinstance(node.test, ast.UnaryOp) and isinstance(node.test.op, ast.Not):
            self.count += 1
            node.test = node.test.operand
            node.body, node.orelse = node.orelse, node.body
        return node

    def visit_Compare(self, node):
        self.generic_visit(node)
        if len(node.ops) == 1 and type(node.ops[0]) in self.FLIP and not isinstance(node.comparators[0], ast.Constant):
            self.count += 1
            return ast.copy_location(ast.Compare(left=node.comparators[0], ops=[self.FLIP[type(node.ops[0])]()], comparators=[node.left]), node)
        return node


def respelled_variant(root, relpath):
    with open(os.path.join(root, relpath), encoding='utf-8') as f:
        tree = ast.parse(f.read())
    t = Respell()
    t.visit(tree)
    ast.fix_missing_locations(tree)
    return ast.unparse(tree), t.count


def temp_variant(root, relpath):
    with open(os.path.join(root, relpath), encoding='utf-8') as f:
        tree = ast.parse(f.read())
    control = ast.unparse(tree)
    t = ReturnTemp()
    t.visit(tree)
    ast.fix_missing_locations(tree)
    return control, ast.unparse(tree), t.count


def variants(root, relpath):
    with open(os.path.join(root, relpath), encoding='utf-8') as f:
        tree = ast.parse(f.read())
    control = ast.unparse(tree)
    r = Renamer()
    r.visit(tree)
    return control, ast.unparse(tree), r.count


def _job(args):
    root, relpath, pid = args
    from . import mutants
    try:
        control, renamed, n = variants(root, relpath)
        if n == 0:
            return relpath, 'no-locals', []
        base = mutants._findings(pid, {relpath: control})
        got = mutants._findings(pid, {relpath: renamed})
    except Exception as e:   # an analysis error under a pure rename is a false alarm as well
        return relpath, 'ERROR', [repr(e)[:200]]
    new = sorted(f'{r} {k}' for r, k in got if (r, k) not in base)
    try:
        control, temped, nt = temp_variant(root, relpath)
        if nt:
            got2 = mutants._findings(pid, {relpath: temped})
            new += sorted(f'[return-temp] {r} {k}' for r, k in got2 if (r, k) not in base)
    except Exception as e:
        return relpath, 'ERROR', ['[return-temp] ' + repr(e)[:200]]
    try:
        respelled, nr = respelled_variant(root, relpath)
        if nr:
            got4 = mutants._findings(pid, {relpath: respelled})
            new += sorted(f'[respelled] {r} {k}' for r, k in got4 if (r, k) not in base)
    except Exception as e:
        return relpath, 'ERROR', ['[respelled] ' + repr(e)[:200]]
    try:
        annotated, na = annotated_variant(root, relpath)
        if na:
            got3 = mutants._findings(pid, {relpath: annotated})
            new += sorted(f'[annotations+docstrings] {r} {k}' for r, k in got3 if (r, k) not in base)
    except Exception as e:
        return relpath, 'ERROR', ['[annotations+docstrings] ' + repr(e)[:200]]
    return relpath, 'FALSE-ALARM' if new else 'silent-ok', new


def run(pid, jobs=16):
    root = repo_root()
    files = []
    for dp, dn, fn in os.walk(os.path.join(root, 'sc3')):
        dn[:] = sorted(d for d in dn if d != '__pycache__')
        for f in sorted(fn):
            if f.endswith('.py'):
                files.append(os.path.relpath(os.path.join(dp, f), root))
    out = {'files': len(files), 'renamed_files': 0, 'false_alarms': []}
    with ProcessPoolExecutor(max_workers=jobs) as ex:
        for rel, st, new in ex.map(_job, [(root, f, pid) for f in files], chunksize=2):
            if st != 'no-locals':
                out['renamed_files'] += 1
            if st in ('FALSE-ALARM', 'ERROR'):
                out['false_alarms'].append({'file': rel, 'status': st, 'findings': new[:6]})
    return out
