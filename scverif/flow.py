"""Syntax-directed path enumerator.

`enumerate_paths(fnode, ...)` returns every path through a function body as a
list of events plus an outcome.  Loops are unrolled `unroll` times; `try`,
`finally`, `with`, `break/continue/return/raise` are modelled exactly.  A
statement for which `may_raise(stmt)` is true additionally forks a path on
which it raises an unknown exception ('*').  No value is ever computed: rules
scan the event lists.

Event = (kind, node, extra)
  'stmt'      simple statement executed
  'test'      branch/loop condition `node` evaluated, extra = True/False
  'for'       For node, extra = True (an element is bound) / False (exhausted)
  'with-in'   withitem entered      'with-out'  withitem exited (extra = outcome)
  'try'       Try node entered
  'except'    handler entered (extra = exception tag)
  'finally'   finalbody entered (extra = pending outcome kind)
  'return'    Return node           'raise'  Raise node (explicit)
  'exc'       implicit exception raised by statement `node`
Outcome = ('fall'|'return'|'raise'|'cut', tag)
"""

import ast

from .loader import AnalysisError, dump_name

_SIMPLE = (ast.Assign, ast.AugAssign, ast.AnnAssign, ast.Expr, ast.Delete, ast.Assert,
           ast.Pass, ast.Global, ast.Nonlocal, ast.Import, ast.ImportFrom,
           ast.FunctionDef, ast.AsyncFunctionDef, ast.ClassDef)

BASE_ONLY = {'KeyboardInterrupt', 'SystemExit', 'GeneratorExit', 'BaseException'}

# builtin exception parents (only what the repo uses)
BUILTIN_PARENTS = {
    'StopIteration': 'Exception', 'StopAsyncIteration': 'Exception', 'ValueError': 'Exception',
    'TypeError': 'Exception', 'KeyError': 'LookupError', 'IndexError': 'LookupError',
    'LookupError': 'Exception', 'AttributeError': 'Exception', 'RuntimeError': 'Exception',
    'NotImplementedError': 'RuntimeError', 'OSError': 'Exception', 'AssertionError': 'Exception',
    'ModuleNotFoundError': 'ImportError', 'ImportError': 'Exception', 'ZeroDivisionError': 'ArithmeticError',
    'ArithmeticError': 'Exception', 'OverflowError': 'ArithmeticError', 'Exception': 'BaseException',
    'KeyboardInterrupt': 'BaseException', 'SystemExit': 'BaseException', 'GeneratorExit': 'BaseException',
    'TimeoutError': 'OSError', 'FileNotFoundError': 'OSError', 'UnicodeDecodeError': 'ValueError',
    'RecursionError': 'RuntimeError', 'BaseException': None,
}


class ExcHierarchy:
    def __init__(self, repo=None):
        self.parents = dict(BUILTIN_PARENTS)
        if repo is not None:
            for ci in repo.classes.values():
                par = None
                if ci.bases:
                    par = ci.bases[0].name
                elif ci.ext_bases:
                    par = (ci.ext_bases[0] or '').split('.')[-1]
                if par:
                    self.parents.setdefault(ci.name, par)

    def ancestors(self, name):
        out = []
        seen = set()
        while name is not None and name not in seen:
            seen.add(name)
            out.append(name)
            name = self.parents.get(name)
        return out

    def catches(self, handler_names, tag):
        """'yes' | 'no' | 'maybe'.  handler_names None = bare except."""
        if handler_names is None:
            return 'yes'
        if 'BaseException' in handler_names:
            return 'yes'
        if tag == '*':
            # unknown Exception-class error (BaseException escapes are out of scope, stated)
            if 'Exception' in handler_names:
                return 'yes'
            return 'maybe'
        anc = self.ancestors(tag)
        for h in handler_names:
            if h in anc:
                return 'yes'
        if anc and anc[-1] == 'BaseException':
            return 'no'
        if tag not in self.parents:
            return 'maybe'
        return 'no'


def handler_names(h):
    if h.type is None:
        return None
    if isinstance(h.type, ast.Tuple):
        return [(dump_name(e) or '?').split('.')[-1] for e in h.type.elts]
    return [(dump_name(h.type) or '?').split('.')[-1]]


def raise_tag(node):
    if node.exc is None:
        return 'reraise'
    n = dump_name(node.exc)
    if n is None:
        return '*'
    return n.split('.')[-1]


class PathLimit(Exception):
    pass


class Enumerator:
    def __init__(self, may_raise=None, unroll=1, max_paths=20000, repo=None, branch_filter=None):
        self.may_raise = may_raise or (lambda s: False)
        self.unroll = unroll
        self.max_paths = max_paths
        self.hier = ExcHierarchy(repo)
        self.count = 0
        self.branch_filter = branch_filter

    # A "state" is (events list, outcome) ; outcome None means 'continue to next stmt'
    def run(self, fnode):
        res = []
        for ev, out in self.block(fnode.body, []):
            if out is None:
                out = ('fall', None)
            res.append((ev, out))
        return res

    def _tags(self, node):
        r = self.may_raise(node)
        if not r:
            return []
        if r is True:
            return ['*']
        return list(r)

    def _tick(self):
        self.count += 1
        if self.count > self.max_paths:
            raise PathLimit()

    def block(self, stmts, ev, exc_ctx=None):
        """yield (events, outcome) for executing stmts starting with event prefix ev."""
        states = [(ev, None)]
        for s in stmts:
            nxt = []
            for e, out in states:
                if out is not None:
                    nxt.append((e, out))
                    continue
                nxt.extend(self.stmt(s, e, exc_ctx))
            states = nxt
        return states

    def stmt(self, s, ev, exc_ctx):
        self._tick()
        out = []
        if isinstance(s, _SIMPLE):
            for tag in self._tags(s):
                out.append((ev + [('exc', s, tag)], ('raise', tag)))
            out.append((ev + [('stmt', s, None)], None))
            return out
        if isinstance(s, ast.Return):
            if s.value is not None:
                for tag in self._tags(s):
                    out.append((ev + [('exc', s, tag)], ('raise', tag)))
            out.append((ev + [('return', s, None)], ('return', s)))
            return out
        if isinstance(s, ast.Raise):
            tag = raise_tag(s)
            if tag == 'reraise':
                tag = exc_ctx or '*'
            out.append((ev + [('raise', s, tag)], ('raise', tag)))
            return out
        if isinstance(s, ast.Break):
            return [(ev + [('stmt', s, None)], ('break', None))]
        if isinstance(s, ast.Continue):
            return [(ev + [('stmt', s, None)], ('continue', None))]
        if isinstance(s, ast.If):
            for tag in self._tags(s.test):
                out.append((ev + [('exc', s.test, tag)], ('raise', tag)))
            out.extend(self.block(s.body, ev + [('test', s.test, True)], exc_ctx))
            out.extend(self.block(s.orelse, ev + [('test', s.test, False)], exc_ctx))
            return out
        if isinstance(s, ast.While):
            return self.loop(s, ev, exc_ctx, is_for=False)
        if isinstance(s, (ast.For, ast.AsyncFor)):
            return self.loop(s, ev, exc_ctx, is_for=True)
        if isinstance(s, (ast.With, ast.AsyncWith)):
            return self.with_(s, ev, exc_ctx)
        if isinstance(s, ast.Try):
            return self.try_(s, ev, exc_ctx)
        raise AnalysisError('flow', f'unsupported statement kind {type(s).__name__} at line {s.lineno}')

    def loop(self, s, ev, exc_ctx, is_for):
        out = []
        const_true = (not is_for) and isinstance(s.test, ast.Constant) and bool(s.test.value) is True
        states = [(ev, 0)]
        while states:
            e, it = states.pop()
            head = s.iter if is_for else s.test
            if it == 0:
                for tag in self._tags(head):
                    out.append((e + [('exc', head, tag)], ('raise', tag)))
            # exit edge
            if not const_true:
                ex = e + ([('for', s, False)] if is_for else [('test', s.test, False)])
                out.extend(self.block(s.orelse, ex, exc_ctx))
            if it >= self.unroll:
                if const_true:
                    out.append((e + [('cut', s, None)], ('cut', None)))
                continue
            en = e + ([('for', s, True)] if is_for else [('test', s.test, True)])
            for e2, o2 in self.block(s.body, en, exc_ctx):
                if o2 is None or o2[0] == 'continue':
                    states.append((e2, it + 1))
                elif o2[0] == 'break':
                    out.append((e2, None))
                else:
                    out.append((e2, o2))
        return out

    def with_(self, s, ev, exc_ctx):
        out = []
        e = ev
        for item in s.items:
            for tag in self._tags(item.context_expr):
                out.append((e + [('exc', item.context_expr, tag)], ('raise', tag)))
            e = e + [('with-in', item, None)]
        for e2, o2 in self.block(s.body, e, exc_ctx):
            e3 = e2
            for item in reversed(s.items):
                e3 = e3 + [('with-out', item, o2[0] if o2 else 'next')]
            out.append((e3, o2))
        return out

    def try_(self, s, ev, exc_ctx):
        results = []   # before finally
        body_states = self.block(s.body, ev + [('try', s, None)], exc_ctx)
        for e, o in body_states:
            if o is None:
                results.extend(self.block(s.orelse, e, exc_ctx))
            elif o[0] == 'raise' and s.handlers:
                tag = o[1]
                pending = True
                for h in s.handlers:
                    c = self.hier.catches(handler_names(h), tag)
                    if c == 'no':
                        continue
                    results.extend(self.block(h.body, e + [('except', h, tag)], tag))
                    if c == 'yes':
                        pending = False
                        break
                if pending:
                    results.append((e, o))
            else:
                results.append((e, o))
        if not s.finalbody:
            return results
        out = []
        for e, o in results:
            for e2, o2 in self.block(s.finalbody, e + [('finally', s, o[0] if o else 'next')], exc_ctx):
                out.append((e2, o2 if o2 is not None else o))
        return out


def enumerate_paths(fnode, may_raise=None, unroll=1, max_paths=20000, repo=None):
    en = Enumerator(may_raise=may_raise, unroll=unroll, max_paths=max_paths, repo=repo)
    try:
        return en.run(fnode)
    except PathLimit:
        raise AnalysisError('flow', f'path limit exceeded in {getattr(fnode, "name", "?")}')


# ----------------------------------------------------------------------------
# helpers used by many rules

def calls_in(node):
    """All Call nodes inside node (not descending into nested defs/lambdas)."""
    out = []
    stack = [node]
    while stack:
        n = stack.pop()
        if isinstance(n, ast.Call):
            out.append(n)
        for c in ast.iter_child_nodes(n):
            if isinstance(c, (ast.FunctionDef, ast.AsyncFunctionDef, ast.ClassDef, ast.Lambda)):
                continue
            stack.append(c)
    return out


def contains_call(node, pred=None):
    for c in calls_in(node):
        if pred is None or pred(c):
            return True
    return False


def default_may_raise(s):
    """A statement/expr may raise iff it contains a call, a subscript, a binary
    operation or an await/yield.  Plain attribute loads/stores, names and
    constants are assumed not to raise (stated in the evidence)."""
    for n in ast.walk(s):
        if isinstance(n, (ast.Call, ast.Subscript, ast.BinOp, ast.Yield, ast.YieldFrom, ast.Await)):
            return True
        if isinstance(n, (ast.FunctionDef, ast.Lambda, ast.ClassDef)) and n is not s:
            pass
    return False


def event_nodes(events, kinds=None):
    for k, n, x in events:
        if kinds is None or k in kinds:
            yield k, n, x


def index_of(events, pred, start=0):
    for i in range(start, len(events)):
        if pred(events[i]):
            return i
    return -1
