"""Lock identity and lock-context analysis (lexical `with` + held-on-entry fixpoint)."""

import ast

from .loader import norm, dump_name, walk_local, walk_local_ordered
from . import util as U


def lock_classes(repo):
    """attr name -> lock class id.  `X = threading.Condition(L)` joins L's class;
    `X = <expr>._main_lock` aliases; bare constructors create fresh classes."""
    cls_of = {}
    pending = []
    for m in repo.modules.values():
        for node in ast.walk(m.tree):
            if not isinstance(node, ast.Assign) or len(node.targets) != 1:
                continue
            t = node.targets[0]
            if not isinstance(t, ast.Attribute):
                continue
            v = node.value
            name = t.attr
            if isinstance(v, ast.Call) and dump_name(v.func) in ('threading.Condition', 'threading.Lock', 'threading.RLock'):
                if v.args:
                    pending.append((name, v.args[0]))
                else:
                    cls_of.setdefault(name, f'{m.name.split(".")[-1]}.{name}')
            elif isinstance(v, ast.Attribute) and (v.attr.endswith('_lock') or v.attr.endswith('_cond')):
                pending.append((name, v))
    changed = True
    while changed:
        changed = False
        for name, src in pending:
            if name in cls_of:
                continue
            sa = src.attr if isinstance(src, ast.Attribute) else None
            if sa in cls_of:
                cls_of[name] = cls_of[sa]
                changed = True
    return cls_of


def lexical_locks(node, cls_of):
    """lock classes held lexically at `node` (through enclosing `with`)"""
    held = set()
    cur = node
    for p in U.parent_chain(node):
        if isinstance(p, (ast.With, ast.AsyncWith)) and U.in_body(cur, p, 'body'):
            for item in p.items:
                e = item.context_expr
                if isinstance(e, ast.Attribute) and e.attr in cls_of:
                    held.add(cls_of[e.attr])
        if isinstance(p, (ast.FunctionDef, ast.AsyncFunctionDef)):
            break
        cur = p
    return held


def with_attrs(node):
    """attribute names of enclosing with-items (innermost first)"""
    out = []
    cur = node
    for p in U.parent_chain(node):
        if isinstance(p, (ast.With, ast.AsyncWith)) and U.in_body(cur, p, 'body'):
            for item in p.items:
                e = item.context_expr
                if isinstance(e, ast.Attribute):
                    out.append(e.attr)
        if isinstance(p, (ast.FunctionDef, ast.AsyncFunctionDef)):
            break
        cur = p
    return out


TOP = None


def entry_locks(funcs, resolve_call, cls_of, roots):
    """funcs: list of FuncInfo; resolve_call(call, caller FuncInfo) -> list of callee FuncInfo
    roots: set of fq that are entered with nothing held.  Returns fq -> frozenset of held classes."""
    held = {f.fq: TOP for f in funcs}
    for r in roots:
        if r in held:
            held[r] = frozenset()
    sites = {f.fq: [] for f in funcs}
    for f in funcs:
        for c in U.calls(f.node):
            for callee in resolve_call(c, f) or []:
                if callee.fq in sites:
                    sites[callee.fq].append((f, c))
        # property setter calls: `x.attr = v`
        for s in walk_local(f.node):
            if isinstance(s, ast.Assign):
                for t in s.targets:
                    for callee in resolve_call(t, f) or []:
                        if callee.fq in sites:
                            sites[callee.fq].append((f, t))
    for fq, ss in sites.items():
        if not ss and held[fq] is TOP:
            held[fq] = frozenset()
    changed = True
    it = 0
    while changed and it < 50:
        changed = False
        it += 1
        for f in funcs:
            if f.fq in roots or not sites[f.fq]:
                continue
            acc = TOP
            for caller, site in sites[f.fq]:
                ch = held[caller.fq]
                lex = lexical_locks(site, cls_of)
                h = TOP if ch is TOP else frozenset(lex | ch)
                if h is TOP:
                    continue
                acc = h if acc is TOP else (acc & h)
            if acc is not TOP and acc != held[f.fq]:
                held[f.fq] = acc
                changed = True
    return {k: (v if v is not TOP else frozenset()) for k, v in held.items()}, sites
