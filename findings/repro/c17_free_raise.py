"""C17: a completion function that raises in Buffer.free leaves the buffer as it was (id still owned, nothing returned to
the allocator); a later free releases exactly that id once."""
import sys
import sc3
sc3.init('nrt')
from sc3.base.main import main
from sc3.synth.server import Server
from sc3.synth.buffer import Buffer
s = Server.default
bad = []
a = Buffer(1024, 1); b = Buffer(1024, 1)
try:
    a.free(lambda buf: 1 / 0)
except ZeroDivisionError:
    pass
c = Buffer(1024, 1)
if c.bufnum == a.bufnum: bad.append(('id of the buffer whose free() failed was handed out again', c.bufnum))
a.free()
d = Buffer(1024, 1)
ids = {x.bufnum for x in (b, c, d)}
if len(ids) != 3: bad.append(('live buffers share an id', [x.bufnum for x in (b, c, d)]))
print('FAIL ' + repr(bad) if bad else 'PASS'); sys.exit(1 if bad else 0)
