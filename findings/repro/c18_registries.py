"""C18: the callback registries run exactly the actions currently registered: an action removed by an earlier action of
the same run is not run (SystemAction already re-checked; ServerAction and NotificationCenter did not)."""
import sys
import sc3
sc3.init('nrt')
from sc3.base.systemactions import ServerBoot, CmdPeriod
from sc3.base.model import NotificationCenter
from sc3.synth.server import Server
bad = []
s = Server.default
log = []
def b(server): log.append('b')
def a(server): log.append('a'); ServerBoot.remove(s, b)
ServerBoot.add(s, a); ServerBoot.add(s, b)
ServerBoot.run(s)
if log != ['a']: bad.append(('ServerBoot.run', log))
ServerBoot.remove(s, a)
class L: pass
l1, l2, obj = L(), L(), L()
log2 = []
def n1(*args): log2.append('n1'); NotificationCenter.unregister(obj, 'x', l2)
def n2(*args): log2.append('n2')
NotificationCenter.register(obj, 'x', l1, n1); NotificationCenter.register(obj, 'x', l2, n2)
NotificationCenter.notify(obj, 'x')
if log2 != ['n1']: bad.append(('NotificationCenter.notify', log2))
print('FAIL ' + repr(bad) if bad else 'PASS'); sys.exit(1 if bad else 0)
