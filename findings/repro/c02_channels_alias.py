# mutating the list a multi-output unit returned must not change the unit's declared outputs
import sc3; sc3.init('nrt'); from sc3.all_nrt import *
units = {}
def g():
    c = In.ar(0, 4); last = c.pop(); c.append(SinOsc.kr(1) * 2)
    units['in'] = last.source_ugen
    p = Pan2.ar(SinOsc.ar(), 0); p.pop(); units['pan'] = [u for u in [p[0].source_ugen]][0]
    Out.ar(0, last)
sd = SynthDef('g', g)
assert len(units['in']._channels) == 4, len(units['in']._channels)
assert len(units['pan']._channels) == 2, len(units['pan']._channels)
from sc3.synth.synthdesc import SynthDesc
SynthDesc.new_from(sd)
print('PASS')
