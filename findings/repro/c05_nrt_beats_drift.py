# NRT: a routine yielding 1 beat on TempoClock(3) must wake at beats2secs(k), not at an accumulated round trip
import sc3; sc3.init('nrt'); from sc3.all_nrt import *
from sc3.base.main import main
bad = []
for tempo in (3, 7, 1.1, 0.9):
    main.reset()
    c = TempoClock(tempo, 0, 0)
    log = []
    @routine
    def r():
        for k in range(40):
            log.append((k, main.current_tt._seconds))
            yield 1
    r.play(c, 0)
    main.process()
    for k, secs in log:
        if secs != c.beats2secs(float(k)):
            bad.append((tempo, k, secs, c.beats2secs(float(k))))
print(bad[:5], len(bad))
assert not bad
print('PASS')
