"""C14: Pdur directly over a Pbind plays; Ppar's bridging rest is not stretched twice under a proto stretch;
an explicit Scale / non-octave Tuning reaches the degree -> midinote chain."""
import sys
import sc3
sc3.init('nrt')
from sc3.base.main import main
from sc3.seq.patterns.eventpatterns import Pbind, Ppar
from sc3.seq.patterns.filterpatterns import Pdur
from sc3.seq.patterns.listpatterns import Pseq
from sc3.seq.scale import Scale, Tuning
from sc3.seq.event import event
bad = []
def notes(score):
    return [(round(e[0], 4), dict(zip(e[1][5::2], e[1][6::2]))) for e in score.list if e[1][0] == '/s_new']
# 1. Pdur over Pbind
try:
    Pdur(2.25, Pbind({'dur': Pseq([1, 1, 1, 1]), 'amp': 0.1})).play()
    sc = main.process()
    t = [x[0] for x in notes(sc)]
    if t != [0.0, 1.0, 2.0]: bad.append(('Pdur over Pbind note times', t))
except Exception as e:
    bad.append(('Pdur over Pbind', repr(e)))
main.reset()
# 2. Ppar under stretch 2
Ppar(Pbind({'dur': Pseq([.25] * 3), 'amp': .11}), Pbind({'dur': Pseq([1.] * 3), 'amp': .22})).play(proto={'stretch': 2.0})
sc = main.process()
t = [x[0] for x in notes(sc) if abs(x[1].get('amp', 0) - .22) < 1e-6]
if t != [0.0, 2.0, 4.0]: bad.append(('second child of Ppar under stretch 2 plays at', t))
main.reset()
# 3. scale key
s2 = Scale([0, 2, 4, 6], Tuning([0, 1.5, 3, 4.5, 6, 7.5, 9, 10.5], 3.0, name='bp'))
try:
    m = event({'degree': 4, 'scale': s2})('midinote')
    if abs(m - 79.01955) > 1e-3: bad.append(('degree 4 in a 4-step scale over a 3:1 tuning', m))
except Exception as e:
    bad.append(('event with a scale key', repr(e)))
print('FAIL ' + repr(bad) if bad else 'PASS'); sys.exit(1 if bad else 0)
