# play(func, fade=0) must not write units of one build into a list owned by the caller
import sc3; sc3.init('nrt'); from sc3.all_nrt import *
from sc3.base.main import main
ROW = [0, 0]
g = lambda: [SinOsc.ar(440), ROW]
play(g, fade=0); play(g, fade=0)
score = main.process()
blobs = [m[1] for b in score.list for m in b[1:] if m[0] == '/d_recv']
print([len(x) for x in blobs], ROW)
assert ROW == [0, 0], ROW
assert len(blobs) == 2 and len(blobs[0]) == len(blobs[1]), [len(x) for x in blobs]
print('PASS')
