"""C18: a message with a type tag the reader does not handle is dropped (OscMessageParseError), not delivered with
misaligned arguments: ',hi' carrying (7, 42) used to be delivered as [0]."""
import sys, struct
import sc3
sc3.init('nrt')
from sc3.base import _osclib as oli
d = b'/x\x00\x00' + b',hi\x00' + struct.pack('>q', 7) + struct.pack('>i', 42)
try:
    m = oli.OscMessage(d)
    print('FAIL: delivered as', m.address, m.params); sys.exit(1)
except oli.OscMessageParseError:
    print('PASS'); sys.exit(0)
