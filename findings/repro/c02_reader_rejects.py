# what the description reader rejects as malformed (duplicated control names, more than 255 names) is not emitted
import sc3; sc3.init('nrt'); from sc3.all_nrt import *
from sc3.synth.synthdesc import SynthDesc
bad = []
def inner(freq=440): return SinOsc.ar(freq)
def g(): Out.ar(0, SynthDef.wrap(inner) + SynthDef.wrap(inner))
src = 'def h(' + ', '.join(f'a{i}=0' for i in range(256)) + '): Out.ar(0, DC.ar(a0))'
ns = {'Out': Out, 'DC': DC}; exec(src, ns)
for name, fn in (('dup', g), ('n256', ns['h'])):
    try:
        sd = SynthDef(name, fn); b = sd.as_bytes()
    except Exception as e:
        print(name, 'rejected at build:', type(e).__name__); continue
    try:
        SynthDesc.new_from(sd); print(name, 'accepted by reader')
    except Exception as e:
        bad.append((name, str(e)))
print(bad); assert not bad; print('PASS')
