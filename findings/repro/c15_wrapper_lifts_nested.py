# bi.op(x) must lift like x.op(): a channel list of functions / rests stays a list of functions / rests
import sc3; sc3.init('nrt'); from sc3.all_nrt import *
from sc3.base import builtins as bi
from sc3.base.functions import function
from sc3.synth.ugen import ChannelList
from sc3.seq.event import Rest
f = function(lambda: 7)
bad = []
r = bi.sign(ChannelList([f]))
if not callable(r[0]) or r[0]() != 1.0: bad.append(('sign', r))
r = bi.atan2(ChannelList([1, 2]), f)
if not callable(r[0]): bad.append(('atan2', r))
r = bi.sign(ChannelList([Rest(3)]))
if not isinstance(r[0], Rest): bad.append(('rest', r))
r = bi.clip(ChannelList([f]), 0, 5)
if not callable(r[0]) or r[0]() != 5: bad.append(('clip', r))
print(bad); assert not bad; print('PASS')
