# MdPlugin.write removed the old metadata file and json.dump'ed into the newly opened one: metadata that cannot be
# serialised left a truncated fragment on disk and the old valid file was gone.
import tempfile, os, json
import sc3
sc3.init('nrt')
from sc3.synth.synthdef import SynthDef
from sc3.synth.ugens import Out, SinOsc
d = tempfile.mkdtemp()
def g():
    Out.ar(0, SinOsc.ar())
SynthDef('mdx', g, metadata={'text': 'ok'}).store(dir=d)
p = os.path.join(d, 'mdx.scjsonmd')
before = open(p).read()
try:
    SynthDef('mdx', g, metadata={'text': 'ok', 'obj': object()}).store(dir=d)
except TypeError as e:
    print('raised', e)
after = open(p).read() if os.path.exists(p) else None
print(repr(before), repr(after))
assert after == before, (before, after)
json.loads(after)
