# Buffer.copy_data(dst) and Buffer.prepare_partconv(buf, n) refused a freed self but not a freed *other* buffer:
# the command named id None (0 on the wire), a number the client does not own.
import sc3
sc3.init('nrt')
from sc3.synth.server import Server
from sc3.synth.buffer import Buffer, BufferAlreadyFreed
s = Server.default
sent = []
a, b = Buffer(16, 1, s), Buffer(16, 1, s)
s.addr.send_msg = lambda *x: sent.append(list(x))
b.free()
n = len(sent)
for call in (lambda: a.copy_data(b), lambda: a.prepare_partconv(b, 4)):
    try:
        call()
        print('emitted', sent[-1])
    except BufferAlreadyFreed as e:
        print('refused', e)
assert len(sent) == n, sent[n:]
