# an unused unit that reads a rewritable sum in both slots must not make live units disappear
import sc3; sc3.init('nrt'); from sc3.all_nrt import *
bad = []
for op in ('*', '+', '-'):
    def g():
        x = SinOsc.ar(101); y = SinOsc.ar(103); z = SinOsc.ar(105)
        s = x + y
        t = s + z
        d1 = s * z
        d2 = {'*': t * t, '+': t + t, '-': t - t}[op]
        Out.ar(0, t)
    names = [u.name for u in SynthDef('b', g)._children]
    if 'Out' not in names: bad.append((op, names))
print(bad); assert not bad; print('PASS')
