"""C02: a tuple as a unit input is not numeric: the graph must be rejected with an exception, never written as bytes."""
import sys, io
import sc3
sc3.init('nrt')
from sc3.synth.synthdef import SynthDef
from sc3.synth.synthdesc import SynthDesc
from sc3.synth.ugens import SinOsc, Out
def g():
    Out.ar(0, SinOsc.ar((440, 441)) + SinOsc.ar(440) + SinOsc.ar(441))
try:
    b = SynthDef('t', g).as_bytes()
except Exception as e:
    print('PASS (rejected:', type(e).__name__, str(e)[:60], ')'); sys.exit(0)
print('FAIL: bytes were produced for a unit with a tuple input (%d bytes)' % len(b))
sys.exit(1)
