# a nested channel list combined with a list keeps its nested rows channel lists (follow-up arithmetic must stay element-wise)
import sc3; sc3.init('nrt'); from sc3.all_nrt import *
from sc3.synth.ugen import ChannelList
res = {}
def f():
    x = SinOsc.ar([[100, 200], 300])
    res['mul'] = x * [1, 2]
    res['rmul'] = [1, 2] * x
    res['ref'] = x * 2
    Out.ar(0, DC.ar(0))
SynthDef('t', f)
print({k: type(v[0]).__name__ for k, v in res.items()})
assert all(isinstance(v[0], ChannelList) for v in res.values())
print('PASS')
