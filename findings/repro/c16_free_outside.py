"""C16: freeing an address below the partition (e.g. a bus object for the hardware channels, AudioBus(2, s, 0).free())
must not release a live block through negative indexing."""
import sys
import sc3
sc3.init('nrt')
from sc3.synth._engine import ContiguousBlockAllocator
bad = []
a = ContiguousBlockAllocator(16, 0, 4)       # partition [4, 20)
x = a.alloc(12)                               # [4, 16)
y = a.alloc(4)                                # [16, 20)
a.free(0)                                     # below the partition: slot index -4 -> the block at 16
z = a.alloc(4)
if z is not None: bad.append(('free(0) released the live block at', y, 'handed out again as', z))
for addr in (20, 100):
    try:
        a.free(addr)
    except IndexError as e:
        bad.append(('free(%d) raised' % addr, repr(e)))
print('FAIL ' + repr(bad) if bad else 'PASS'); sys.exit(1 if bad else 0)
