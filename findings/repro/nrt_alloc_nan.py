# DESIGN §5 items 19 (allocator units) and 20 (validation bypass).  Not a check.
import warnings; warnings.simplefilter('ignore')
import logging; logging.disable(logging.CRITICAL)
import sc3
sc3.init('nrt')
from sc3.synth._engine import ContiguousBlockAllocator as A
from sc3.synth.synthdef import SynthDef
from sc3.synth.ugens import *

for off in (0, 16):
    a = A(16, 0, off)
    xs = [a.alloc(4) for _ in range(4)]          # partition full
    a.free(xs[2]); a.free(xs[1])                 # a free run of 8 now exists
    print('addr_offset', off, 'blocks', xs, 'alloc(8) ->', a.alloc(8))

nan = float('nan')
for name, fn in (('sin_nan', lambda: Out.ar(0, SinOsc.ar(nan))),
                 ('ampcomp_kr_nan', lambda: Out.kr(0, AmpComp.kr(nan)))):
    try:
        print(name, 'compiled,', len(bytes(SynthDef(name, fn).as_bytes())), 'bytes')
    except Exception as e:
        print(name, 'rejected:', repr(e)[:80])
