# commands must not carry the id of a freed object (None goes out as 0) nor raw Python objects
import sc3; sc3.init('nrt'); from sc3.all_nrt import *
from sc3.base.main import main
from sc3.synth.buffer import Buffer, BufferException
from sc3.synth.bus import ControlBus, BusException
bad = []
x = Synth('default')
fb = Buffer(8); fb.free()
for name, call in (('read', lambda: fb.read('/tmp/x.wav')), ('cue', lambda: fb.cue('/tmp/x.wav')), ('alloc', lambda: fb.alloc()),
                   ('update_info', lambda: fb.update_info()), ('set-arg', lambda: x.set('bufnum', fb))):
    try:
        call(); bad.append(name + ' emitted a command for a freed buffer')
    except BufferException:
        pass
fbus = ControlBus(2); fbus.free()
try:
    x.mapn('c', fbus); bad.append('mapn emitted a command for a freed bus')
except BusException:
    pass
buf = Buffer(8)
x.setn('a', (1, 2))
x.fill('c', 1, buf, 'd', 1, buf)
score = main.process()
msgs = [m for b in score.list for m in b[1:]]
setn = [m for m in msgs if m[0] == '/n_setn'][0]
fill = [m for m in msgs if m[0] == '/n_fill'][0]
if setn[2:] != ['a', 2, 1, 2]: bad.append(('setn', setn))
if fill[2:] != ['c', 1, buf.bufnum, 'd', 1, buf.bufnum]: bad.append(('fill', fill))
print(bad); assert not bad; print('PASS')
