"""C18: a bundle with an element that is neither a message nor a bundle is malformed as a whole: nothing of it is dispatched."""
import sys, struct
import sc3
sc3.init('nrt')
from sc3.base import _osclib as oli
msg = oli.OscMessageBuilder('/ok'); msg.add_arg(1); m = msg.build().dgram
bad = []
for junk in (b'xyz\x00', b''):
    d = b'#bundle\x00' + struct.pack('>q', 1) + struct.pack('>i', len(junk)) + junk + struct.pack('>i', len(m)) + m
    try:
        p = oli.OscPacket(d)
        bad.append((junk, 'dispatched', [x.message.address for x in p.messages]))
    except oli.OscParseError:
        pass
    except Exception as e:
        bad.append((junk, repr(e)))
print('FAIL ' + repr(bad) if bad else 'PASS'); sys.exit(1 if bad else 0)
