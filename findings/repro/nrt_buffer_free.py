import warnings; warnings.simplefilter('ignore')
import logging; logging.disable(logging.CRITICAL)
import sc3
sc3.init('nrt')
from sc3.base.main import main
from sc3.synth.buffer import Buffer
from sc3.synth.server import s
from sc3.base.clock import SystemClock, AppClock, TempoClock
import functools
b1 = Buffer(1024); b2 = Buffer(1024); 
bs = Buffer.new_consecutive(3, 128, 1, s)
b1.free(); b1.free()
Buffer.free_all(s)
sc = main.process()
for e in sc.list: print(e)
