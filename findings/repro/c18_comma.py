"""C18: in an OSC 1.0 pattern a comma is an alternation only inside braces."""
import sys
import sc3
sc3.init('nrt')
from sc3.base._oscmatch import osc_rematch_pattern as m
bad = []
for pat, addr, want in (('/a,/b', '/a', False), ('/a,/b', '/b', False), ('/a,zzz', '/a', False), ('/a,b', '/a,b', True), ('/{a,b}', '/a', True),
                        ('/{a,b}', '/b', True), ('/{a,b}', '/a,b', False), ('/{a,b},c', '/a,c', True), ('/{a,b},c', '/a', False), ('/x{1,2}/y,{3,4}', '/x2/y,4', True)):
    if m(pat, addr) != want: bad.append((pat, addr, m(pat, addr)))
print('FAIL ' + repr(bad) if bad else 'PASS'); sys.exit(1 if bad else 0)
