# Pchain.__embed__ kept one name for the consumer's in-event and for the partially chained output: when a stream of the
# chain ends after another has already produced its event, that partial output was returned as the in-value for whatever follows.
import sc3
sc3.init('nrt')
from sc3.base import stream as stm
from sc3.seq import event as evt
from sc3.seq.patterns.eventpatterns import Pchain, Pbind
from sc3.seq.patterns.listpatterns import Pseq
p = Pseq([Pchain(Pbind({'degree': Pseq([0, 1])}), Pbind({'amp': 0.5, 'dur': 0.25})),
          Pbind({'degree': Pseq([4, 5])})])
s = stm.stream(p)
out = []
try:
    while True:
        out.append(dict(s.next(evt.event())))
except stm.StopStream:
    pass
print(out)
assert [e.get('amp') for e in out] == [0.5, 0.5, None, None], out
assert [e.get('dur') for e in out] == [0.25, 0.25, None, None], out
