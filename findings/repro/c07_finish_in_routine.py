# known finding: finish() called from inside a routine stamps the marker T + tailtime without the max over queued bundles
import sc3; sc3.init('nrt'); from sc3.all_nrt import *
from sc3.base.main import main
from sc3.base.netaddr import NetAddr
addr = NetAddr('127.0.0.1', 57110)
@routine
def r():
    yield 1.0
    addr.send_bundle(2.0, ['/late'])
    main._osc_interface._osc_score.finish()
r.play()
main._clock_scheduler.run()
lst = main._osc_interface._osc_score.list
print(lst)
print('marker last:', lst[-1][1][0] == '/c_set')
