# building a definition must not modify the rates list given by the caller (and a tuple works like a list)
import sc3; sc3.init('nrt'); from sc3.all_nrt import *
r = [0.1]
a = SynthDef('r', lambda a=1, b=2, c=3: Out.kr(0, [a, b, c]), r).as_bytes()
assert r == [0.1], r
b = SynthDef('r', lambda a=1, b=2, c=3: Out.kr(0, [a, b, c]), (0.1,)).as_bytes()
assert a == b
print('PASS')
