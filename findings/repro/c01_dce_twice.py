"""C01: a dead side-effect-free unit that uses one input in two slots must not stop the compilation."""
import sys
import sc3
sc3.init('nrt')
from sc3.synth.synthdef import SynthDef
from sc3.synth.ugens import SinOsc, Out, LFSaw
bad = []
def g1():
    x = SinOsc.ar(440); x * x; Out.ar(0, x + 1)
def g2():
    k = LFSaw.kr(2); SinOsc.ar(k, k); Out.kr(0, k)
for g in (g1, g2):
    try:
        SynthDef(g.__name__, g).as_bytes()
    except Exception as e:
        bad.append((g.__name__, repr(e)))
print('FAIL ' + repr(bad) if bad else 'PASS'); sys.exit(1 if bad else 0)
