# a lag list given for a one-slot control-rate parameter must not multichannel-expand the LagControl
import sc3; sc3.init('nrt'); from sc3.all_nrt import *
def f(a=1, b=2): Out.kr(0, [a, b])
for rates in ([[0.5, 0.6], 0.1], [0.5, 0.1], [0, 0]):
    sd = SynthDef('t', f, rates)
    assert sd._controls == [1, 2], (rates, sd._controls)
    assert [u.name for u in sd._children].count('LagControl') + [u.name for u in sd._children].count('Control') == 1, [u.name for u in sd._children]
def g(a=(1, 2, 3), b=2): Out.kr(0, [*a, b])
sd = SynthDef('t', g, [[0.5, 0.6], 0.1])
lc = [u for u in sd._children if u.name == 'LagControl'][0]
assert list(lc.inputs) == [0.5, 0.6, 0.5, 0.1], lc.inputs
print('PASS')
