"""C10/C12: a tempo change while another task is pending on the same TempoClock.
RT keys the queue by beat (wake-up moves with the tempo map); NRT converts the beat to seconds once, at enqueue."""
import sys, subprocess, json
PROG = r'''
import sys, json, time
mode = sys.argv[1]
import sc3
sc3.init(mode)
from sc3.base.main import main
from sc3.base.clock import TempoClock
from sc3.base.stream import routine
log = []
def prog():
    c = TempoClock(1)
    t0 = main.current_tt._seconds
    @routine
    def a():
        yield 2
        log.append(('a', round(c.beats, 3), round(main.current_tt._seconds - t0, 3)))
    @routine
    def b():
        yield 0.5
        c.tempo = 4
        log.append(('b', round(c.beats, 3), round(main.current_tt._seconds - t0, 3)))
    c.play(a); c.play(b)
if mode == 'nrt':
    r = routine(prog); r.play() if hasattr(r, 'play') else None
    main.process()
else:
    from sc3.base.clock import SystemClock
    SystemClock.sched(0, lambda: prog())
    time.sleep(1.6)
print(json.dumps(log))
'''
out = {}
for mode in ('nrt', 'rt'):
    r = subprocess.run([sys.executable, '-W', 'ignore', '-c', PROG, mode], capture_output=True, text=True, timeout=60)
    try:
        out[mode] = json.loads(r.stdout.strip().splitlines()[-1])
    except Exception:
        print(mode, 'ERR', r.stdout[-300:], r.stderr[-800:]); sys.exit(2)
print(out)
ok = out['nrt'] == out['rt']
print('PASS' if ok else 'FAIL: NRT and RT disagree')
sys.exit(0 if ok else 1)
