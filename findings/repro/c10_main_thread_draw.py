# known finding (rt only): a draw made by the main thread while a routine is mid wake-up is taken from that routine's generator
import time, sys
import sc3; sc3.init('rt'); from sc3.all import *
from sc3.base.main import main
from sc3.base.stream import Routine
from sc3.base.builtins import rrand
def run(disturb):
    out = []
    def f():
        time.sleep(0.3); out.append(rrand(0, 10**6)); yield 0
    r = Routine(f); r.rand_seed = 99; r.play()
    time.sleep(0.1)
    if disturb: rrand(0, 10**6)
    time.sleep(0.5); return out[0]
a, b = run(False), run(True)
print(a, b, 'same stream' if a == b else 'the main-thread draw consumed from the routine\'s stream')
