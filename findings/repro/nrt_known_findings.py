"""C10 known findings (not repaired): (1) a bundle sent by a plain Function task is stamped scheduled time + latency in RT
but latency-from-zero in NRT; (2) TempoClock.stop() cancels the pending tasks in RT and does nothing in NRT."""
import sys, subprocess, json
PROG = r'''
import sys, json, time
mode = sys.argv[1]
import sc3
sc3.init(mode)
from sc3.base.main import main
from sc3.base.clock import SystemClock, TempoClock
from sc3.base.stream import routine
from sc3.base.netaddr import NetAddr
sent = []
import sc3.base._oscinterface as oi
n = NetAddr('127.0.0.1', 57110)
log = []
def prog():
    t0 = main.current_tt._seconds
    tc = TempoClock(1)
    @routine
    def ticks():
        for i in range(6):
            log.append(('tick', i)); yield 0.1
    ticks.play(tc, 0)
    SystemClock.sched(0.25, lambda: tc.stop())
    def f():
        log.append(('f at', round(main.current_tt._seconds - t0, 2)))
        if mode == 'rt':
            tag = main._osc_interface._get_timetag(main.current_tt._seconds, 0.1)
            log.append(('stamp', round(SystemClock.osc_to_elapsed_time(tag) - t0, 2)))
        else:
            n.send_bundle(0.1, ['/x', 1])
    SystemClock.sched(0.3, f)
if mode == 'nrt':
    routine(prog).play()
    score = main.process()
    log += [('stamp', e[0]) for e in score.list if e[1][0] == '/x']
else:
    SystemClock.sched(0, lambda: prog())
    time.sleep(1.2)
print(json.dumps(log))
'''
out = {}
for mode in ('nrt', 'rt'):
    r = subprocess.run([sys.executable, '-W', 'ignore', '-c', PROG, mode], capture_output=True, text=True, timeout=60)
    try: out[mode] = json.loads(r.stdout.strip().splitlines()[-1])
    except Exception: print(mode, 'ERR', r.stdout[-300:], r.stderr[-900:]); sys.exit(2)
print(json.dumps(out))
ok = out['nrt'] == out['rt']
print('PASS' if ok else 'FAIL: NRT and RT disagree'); sys.exit(0 if ok else 1)
