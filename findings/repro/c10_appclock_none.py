# AppClock.sched(None, f) means "now" in rt (Scheduler.sched) and must mean the same in nrt
import sc3; sc3.init('nrt'); from sc3.all_nrt import *
from sc3.base.main import main
from sc3.base.clock import AppClock
ran = []
AppClock.sched(None, lambda: ran.append(main.current_tt._seconds))
main.process()
assert ran == [0.0], ran
print('PASS')
