import sys
import sc3
sc3.init('nrt')
from sc3.base.main import main
from sc3.seq.patterns.eventpatterns import Pbind, Ppar
from sc3.seq.patterns.filterpatterns import Pdur
from sc3.seq.patterns.listpatterns import Pseq
from sc3.seq.event import Rest
bad = []
def notes(score):
    return [(round(e[0], 4), dict(zip(e[1][5::2], e[1][6::2]))) for e in score.list if e[1][0] == '/s_new']
Pseq([Pdur(2.25, Pbind({'dur': Pseq([1, 1, 1, 1]), 'amp': 0.1})), Pbind({'dur': Pseq([1]), 'amp': 0.5})]).play()
t = [x[0] for x in notes(main.process())]
if t != [0.0, 1.0, 2.0, 2.25]: bad.append(('int durs: the pattern after Pdur(2.25, ...) starts at', t))
main.reset()
Ppar(Pbind({'delta': Pseq([Rest(1), 1]), 'amp': 0.3})).play()
t = [x[0] for x in notes(main.process())]
if t != [1.0]: bad.append(('Rest given as delta inside Ppar: notes at', t))
print('FAIL ' + repr(bad) if bad else 'PASS'); sys.exit(1 if bad else 0)
