"""C20: a build that ends with KeyboardInterrupt (not an Exception subclass) leaves no build context behind."""
import sys
import sc3
sc3.init('nrt')
from sc3.base.main import main
from sc3.synth.synthdef import SynthDef
from sc3.synth.ugens import SinOsc, Out
def g():
    SinOsc.ar(440)
    raise KeyboardInterrupt
try:
    SynthDef('k', g)
except KeyboardInterrupt:
    pass
bad = []
if main._current_synthdef is not None: bad.append(('build context after an interrupted build', main._current_synthdef))
u = SinOsc.ar(1)
if getattr(u, '_synthdef', None) is not None: bad.append(('a unit created outside any build belongs to', u._synthdef))
main._current_synthdef = None
print('FAIL ' + repr(bad) if bad else 'PASS'); sys.exit(1 if bad else 0)
