# Embedding protocol: a pattern embedded in another must receive the latest in-value and hand it back.
import logging; logging.disable(logging.CRITICAL)
from sc3.all import *
from sc3.seq.patterns.funcpatterns import Prout, Pproduct, Pfunc
from sc3.seq.patterns.filterpatterns import Pdelta

def f(inval):
    while True:
        inval = yield inval
s = Pseq([Prout(f)]).__stream__()
print('Prout embedded echoes', [s.next(i) for i in (1, 2, 3)], 'expected [1, 2, 3]')

s = Pseq([Pproduct(None, [Pseq([1, 2])]), Pfunc(lambda x: x)]).__stream__()
print('after Pproduct, Pfunc receives', [s.next(i) for i in (10, 20, 30)][-1], 'expected 30')

s = Pdelta(1, Pfunc(lambda ev: ev)).__stream__()
a, b = {'n': 'a'}, {'n': 'b'}
s.next(a)
print('after Pdelta rest, Pfunc receives', s.next(b).get('n'), 'expected b')
