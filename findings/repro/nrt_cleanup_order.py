# for i in $(seq 8); do /venv/bin/python -W ignore nrt_cleanup_order.py; done | sort | uniq -c
# Several cleanup entries registered on one EventStreamPlayer (what parallel Pmono streams do); stopping the
# player runs EventStreamCleanup.run(), which iterated a *set* of CleanupEntry objects (hashed by id): the order of
# the gate-off bundles stamped at the same time differed between fresh runs of the same program, so the NRT score
# was not byte-identical across runs.
import logging; logging.disable(logging.CRITICAL)
import sc3
sc3.init('nrt')
from sc3.all_nrt import *
from sc3.seq import eventstream as est
from sc3.seq import event as evt

def gen(inevent):
    for i in range(5):
        c = est.CleanupEntry()      # registers itself on the current EventStreamPlayer
        c.add_event(evt.event({'server': Server.default, 'node_id': 2000 + i, 'has_gate': True}, type='_mono_off'))
    while True:
        inevent = yield evt.event({'dur': 1}, type='rest')

player = est.EventStreamPlayer(Routine(gen))
player.play()
SystemClock.sched(2.5, lambda: player.stop())
score = main.process()
print([m[1] for b in score.list for m in b[1:] if m[0] == '/n_set'])
