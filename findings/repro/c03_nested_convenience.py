# convenience methods of a nested ChannelList expand recursively
import sc3; sc3.init('nrt'); from sc3.all_nrt import *
from sc3.synth.ugen import ChannelList
out = {}
def f():
    a, b = SinOsc.ar(1), SinOsc.ar(2)
    for sel, args in (('lag', (0.1,)), ('range', (0, 1)), ('clip', (0.1, 0.5)), ('lag', ([0.1, 0.2],))):
        r = getattr(ChannelList([[a, b], a]), sel)(*args)
        assert isinstance(r, list) and len(r) == 2, (sel, r)
        assert isinstance(r[0], list) and len(r[0]) == 2, (sel, r)
        assert not isinstance(r[1], list), (sel, r)
        out[sel, str(args)] = r
    Out.ar(0, a)
SynthDef('t', f)
print(len(out)); print('PASS')
