# collecting a Pproduct stream must give the products, not one list mutated in place
import sc3; sc3.init('nrt'); from sc3.all_nrt import *
from sc3.seq.patterns.funcpatterns import Pproduct
from sc3.seq.patterns.listpatterns import Pseq
s = Pproduct(None, [Pseq([1, 2]), Pseq([3, 4])]).__stream__()
out = []
while True:
    try: out.append(s.next())
    except Exception as e:
        if type(e).__name__ == 'StopStream': break
        raise
print(out); assert out == [[1, 3], [1, 4], [2, 3], [2, 4]]; print('PASS')
