"""C06: values that cannot be represented are refused, never silently altered (NUL in a string or address;
an address that is not an OSC address pattern)."""
import sys
import sc3
sc3.init('nrt')
from sc3.base.main import main
from sc3.base import _osclib as oli
i = main._osc_interface
bad = []
for msg in (['/x', 'a\x00b', 7], ['/x', 'a\x00bcdef', 7], ['/x\x00y', 7], ['abc', 1], ['#bundle', 1]):
    try:
        m = i._build_msg(0.0, msg)
    except Exception as e:
        continue
    back = oli.OscMessage(m.dgram)
    bad.append((msg, 'accepted; decodes as', back.address, back.params))
print('FAIL ' + repr(bad) if bad else 'PASS'); sys.exit(1 if bad else 0)
