# Pdur(quant=...) pads the end with a rest up to the next multiple of quant, measured in the
# (already stretched) deltas it summed; evt.silent multiplied that padding by 'stretch' again.
import sc3
sc3.init('nrt')
from sc3.seq.patterns.filterpatterns import Pdur
from sc3.seq.patterns.eventpatterns import Pbind
from sc3.seq.patterns.listpatterns import Pseq
from sc3.base import stream as stm
from sc3.seq import event as evt

p = Pdur(10, Pbind({'dur': Pseq([1, 0.5])}), quant=4)   # ends after 1.5 beats -> stretched 3; pad to 4 => rest of 1
s = stm.stream(p)
proto = evt.event({'stretch': 2.0})
total = 0.0
try:
    while True:
        e = s.next(proto.copy())
        total += e('delta') if 'delta' not in e else e['delta']
except stm.StopStream:
    pass
print('total', total)
assert total == 4.0, total
