# known finding: many '*' in an incoming address pattern make the matcher backtrack polynomially (degree = number of stars)
import time
import sc3; sc3.init('nrt'); from sc3.all_nrt import *
from sc3.base._oscmatch import osc_rematch_pattern
path = '/' + 'a' * 40
for n in (4, 5, 6, 7):
    t = time.time(); osc_rematch_pattern('/' + '*a' * n + 'b', path); print(n, 'stars:', round(time.time() - t, 3), 's')
