# A legal but absurdly nested address pattern made re.fullmatch raise RecursionError out of the matcher:
# the dispatchers registered after the matching one never saw that datagram.
import sys
sys.path.insert(0, '/repo')
from sc3.base._oscmatch import osc_rematch_pattern
p = '/' + '{' * 500 + 'x' + '}' * 500
try:
    print(osc_rematch_pattern(p, '/x'))
except RecursionError as e:
    print('RecursionError escaped')
    raise SystemExit(1)
