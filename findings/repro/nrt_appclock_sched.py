import sc3
sc3.init('nrt')
from sc3.base.main import main
from sc3.base.clock import SystemClock, AppClock, TempoClock, defer
from sc3.base.stream import routine, Routine
log = []
@routine
def r():
    yield 10
    log.append(('r at', main.current_tt._seconds))
    AppClock.sched(1, lambda: log.append(('app task at', main.current_tt._seconds, main.elapsed_time())))
    SystemClock.sched(1, lambda: log.append(('sys task at', main.current_tt._seconds, main.elapsed_time())))
    yield 5
    log.append(('r at', main.current_tt._seconds))
r.play()
main.process()
print(log)
