# after Buffer.free_all() the old objects are freed: a later free() must not release a number that now belongs to a new buffer
import sc3; sc3.init('nrt'); from sc3.all_nrt import *
from sc3.base.main import main
from sc3.synth.buffer import Buffer
b1 = Buffer(8); Buffer.free_all(); b2 = Buffer(8); b1.free(); b3 = Buffer(8)
score = main.process()
msgs = [m for b in score.list for m in b[1:] if m[0].startswith('/b_')]
print(msgs, b1.bufnum, b2.bufnum, b3.bufnum)
assert b1.bufnum is None and b2.bufnum != b3.bufnum, (b2.bufnum, b3.bufnum)
assert [m[0] for m in msgs].count('/b_free') == 1
print('PASS')
