import warnings; warnings.simplefilter('ignore')
import logging; logging.disable(logging.CRITICAL)
import sc3
sc3.init('nrt')
from sc3.base.main import main
from sc3.synth.synthdef import SynthDef
from sc3.synth.ugens import *
def inner(pan=0.0, width=2.0):
    return pan
def outer(freq=440, amp=0.1):
    p = SynthDef.wrap(inner)
    Out.ar(0, SinOsc.ar(freq) * amp * p)
sd = SynthDef('w', outer)
print('callable args after wrap:', sd._callable_args, ' all control names:', [c.name for c in sd._all_control_names])
def pre(n, freq=440, amp=0.1):
    Out.ar(0, SinOsc.ar(freq) * amp * n)
sd2 = SynthDef('p', pre, prepend=[3])
print('callable args with prepend:', sd2._callable_args, [c.name for c in sd2._all_control_names])
sd2(550, 0.2)
sd(550, 0.2)
for e in main.process().list: print(e)
