# Pdrop hands the caller's in-value to the first kept element, not the last dropped output
import sc3; sc3.init('nrt'); from sc3.all_nrt import *
from sc3.seq.patterns.filterpatterns import Pdrop
from sc3.seq.patterns.listpatterns import Pseq
from sc3.seq.patterns.funcpatterns import Pfuncn
s = Pdrop(Pseq([100, Pfuncn(lambda x: x, 3)]), 1).__stream__()
out = [s.next(7) for _ in range(3)]
print(out); assert out == [7, 7, 7]; print('PASS')
