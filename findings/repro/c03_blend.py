# UGen.blend builds a crossfade unit (the local `pan` shadowed the module of that name)
import sc3; sc3.init('nrt'); from sc3.all_nrt import *
res = {}
def f():
    a, b = SinOsc.ar(1), SinOsc.ar(2); k, j = SinOsc.kr(1), SinOsc.kr(2)
    res['aa'] = a.blend(b, 0.3); res['kk'] = k.blend(j, 0.5); res['k1'] = k.blend(0.5, 0.5)
    Out.ar(0, res['aa'])
SynthDef('t', f)
print({k: type(v).__name__ for k, v in res.items()})
print('PASS')
