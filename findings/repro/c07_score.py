"""C07 (NRT score): the tail marker closes the score even when the last bundle was sent with latency;
re-sending one nested bundle list stamps its nested bundles relative to the new send instant."""
import sys
import sc3
sc3.init('nrt')
from sc3.base.main import main
from sc3.base.stream import routine
from sc3.base.netaddr import NetAddr
bad = []
n = NetAddr('127.0.0.1', 57110)
b = [0.1, ['/a', 1], [0.2, ['/b', 2], [0.3, ['/c', 3]]]]
@routine
def r():
    yield 1
    n.send_bundle(*b)
    yield 1
    n.send_bundle(*b)                   # the same list again, one second later
    n.send_bundle(2.5, ['/late', 1])    # reaches past the last wake-up
r.play()
score = main.process(tailtime=0.5)
lst = score.list
if lst[-1][1][0] != '/c_set': bad.append(('tail marker is not the last entry', [e[0] for e in lst[-3:]], lst[-1]))
elif abs(lst[-1][0] - (4.5 + 0.5)) > 1e-9: bad.append(('tail marker time', lst[-1][0]))
inner = [e for e in lst if len(e) > 2 and isinstance(e[2], list) and isinstance(e[2][0], float)]
times = [(e[0], e[2][0], e[2][2][0]) for e in inner]
want = [(1.1, 1.2, 1.3), (2.1, 2.2, 2.3)]
if [tuple(round(x, 6) for x in t) for t in times] != want: bad.append(('nested stamps', times, 'expected', want))
if b != [0.1, ['/a', 1], [0.2, ['/b', 2], [0.3, ['/c', 3]]]]: bad.append(('caller list rewritten', b))
print('FAIL ' + repr(bad) if bad else 'PASS'); sys.exit(1 if bad else 0)
