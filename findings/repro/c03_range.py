"""C03: range/unipolar/bipolar with list bounds expand like every other convenience method (also nested)."""
import sys
import sc3
sc3.init('nrt')
from sc3.synth.ugen import ChannelList
from sc3.synth.synthdef import SynthDef
from sc3.synth.ugens import SinOsc, LFNoise0, Out
bad = []
res = {}
def g():
    k = SinOsc.kr(1)
    for name, f in (('ugen range list', lambda: k.range([0.5, 1], 4)), ('chanlist nested', lambda: ChannelList([k]).range([[0.5, 1]], 4)),
                    ('unipolar list', lambda: k.unipolar([1, 2])), ('bipolar list', lambda: ChannelList([k, k]).bipolar([1, [2, 3]])),
                    ('scalar', lambda: k.range(0.5, 4))):
        try:
            res[name] = f()
        except Exception as e:
            bad.append((name, repr(e)))
    Out.kr(0, k)
SynthDef('r', g)
shape = lambda x: [shape(i) for i in x] if isinstance(x, list) else 'u'
want = {'ugen range list': ['u', 'u'], 'chanlist nested': [['u', 'u']], 'unipolar list': ['u', 'u'], 'bipolar list': ['u', ['u', 'u']], 'scalar': 'u'}
for k_, v in res.items():
    if shape(v) != want[k_]: bad.append((k_, shape(v)))
print('FAIL ' + repr(bad) if bad else 'PASS'); sys.exit(1 if bad else 0)
