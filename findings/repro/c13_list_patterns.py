import sys
import sc3
sc3.init('nrt')
from sc3.seq.patterns.listpatterns import *
from sc3.seq.pattern import Pattern
from sc3.base import stream as stm
bad = []
def L(p, n=20):
    s = stm.stream(p); out = []
    try:
        for _ in range(n): out.append(s.next())
    except stm.StopStream: pass
    return out
r = L(Pseq([1, 2, 3], 1, 4))
if r != [2, 3, 1]: bad.append(('Pseq([1,2,3],1,4)', r))
r = L(Pseq([1, 2, 3], 1, -1))
if r != [3, 1, 2]: bad.append(('Pseq([1,2,3],1,-1)', r))
r = L(Pslide([1, 2, 3, 4], 3, -1, 0, wrap=False, repeats=3))
if r != [1, 2, 3]: bad.append(('Pslide nowrap negative', r))
# Pshuffle: in-value must reach embedded sub-patterns
class Echo(Pattern):
    def __embed__(self, inval):
        inval = yield inval
        return inval
s = stm.stream(Pshuffle([Echo(), Echo()]))
r = [s.next(10), s.next(20)]
if r != [10, 20]: bad.append(('Pshuffle in-value', r))
print('FAIL ' + repr(bad) if bad else 'PASS'); sys.exit(1 if bad else 0)
