"""C18: an incoming address that is a malformed OSC pattern invokes no matching responder, raises nothing, and the
receive functions registered after the matching dispatcher still see the message."""
import sys
import sc3
sc3.init('nrt')
from sc3.base.responders import OscFunc
from sc3.base.main import main
bad = []
got = []
m = OscFunc.matching(lambda *a: got.append(('matching', a[0][0])), '/b5')
for addr in ('/b5[', '/b5{x', '/b[z-a]', '/b5}', '/b5[!'):
    e = OscFunc(lambda *a: got.append(('exact', a[0][0])), addr)
    try:
        for d in (OscFunc._default_matching_dispatcher, OscFunc._default_dispatcher):
            d([addr, 1], 0.0, None, 57120)
    except Exception as ex:
        bad.append((addr, 'raised', repr(ex)))
    e.free()
want = [('exact', a) for a in ('/b5[', '/b5{x', '/b[z-a]', '/b5}', '/b5[!')]
if got != want: bad.append(('invoked', got))
print('FAIL ' + repr(bad) if bad else 'PASS'); sys.exit(1 if bad else 0)
