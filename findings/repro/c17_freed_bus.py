"""C17: a freed bus passed as a node argument is refused; no command mentions an id the client does not own (None -> 0)."""
import sys
import sc3
sc3.init('nrt')
from sc3.base.main import main
from sc3.synth.bus import ControlBus, BusException
from sc3.synth.node import Synth
x = Synth('default')
b = ControlBus(1)
b.free()
bad = []
for name, f in (('set', lambda: x.set('out', b)), ('map', lambda: x.map('freq', b))):
    try:
        f(); bad.append((name, 'accepted a freed bus'))
    except BusException:
        pass
score = main.process()
sent = [e[1] for e in score.list if e[1][0] in ('/n_set', '/n_map')]
if sent: bad.append(('commands sent', sent))
print('FAIL ' + repr(bad) if bad else 'PASS'); sys.exit(1 if bad else 0)
