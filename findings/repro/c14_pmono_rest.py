"""C14: a Pmono whose first event is a rest creates its synth at the first non-rest event; no command names a node that
was never created."""
import sys
import sc3
sc3.init('nrt')
from sc3.base.main import main
from sc3.seq.patterns.eventpatterns import Pmono
from sc3.seq.patterns.listpatterns import Pseq
from sc3.seq.event import Rest
Pmono('default', {'dur': Pseq([Rest(1), 1, 1]), 'freq': Pseq([100, 200, 300])}).play()
score = main.process()
cmds = [(round(e[0], 3), m) for e in score.list for m in e[1:] if m[0] in ('/s_new', '/n_set')]
created = {m[2] for _, m in cmds if m[0] == '/s_new'}
bad = [(t, m) for t, m in cmds if m[0] == '/n_set' and m[1] not in created]
print('FAIL: commands for a node that was never created: ' + repr(bad) if bad or not created else 'PASS')
sys.exit(1 if bad or not created else 0)
