# a pattern whose priming read meets an empty stream denotes the empty sequence (StopStream inside a generator body is a RuntimeError)
import sc3; sc3.init('nrt'); from sc3.all_nrt import *
from sc3.seq.patterns.listpatterns import Pwalk, Pseq
from sc3.seq.patterns.timepatterns import Pseg
bad = []
for name, p in (('Pwalk', Pseq([Pwalk([1, 2, 3], 1, Pseq([1], 0)), 5])), ('Pseg', Pseq([Pseg(Pseq([1], 0), 1), 5]))):
    try:
        out = list(p.__stream__()) if hasattr(p, '__stream__') else None
        out = []
        s = p.__stream__()
        for _ in range(4):
            try: out.append(s.next())
            except Exception as e:
                if type(e).__name__ == 'StopStream': break
                raise
        if out != [5]: bad.append((name, out))
    except RuntimeError as e:
        bad.append((name, 'RuntimeError'))
print(bad); assert not bad; print('PASS')
