# a task scheduled with a huge finite delay must not kill the clock thread: later tasks still run
import time, sys
import sc3; sc3.init('rt'); from sc3.all import *
from sc3.base.clock import SystemClock, AppClock, TempoClock
bad = []
for name, clk in (('SystemClock', SystemClock), ('AppClock', AppClock), ('TempoClock', TempoClock(1))):
    ran = []
    clk.sched(1e10, lambda: ran.append('never'))
    time.sleep(0.15)
    clk.sched(0.05, lambda: ran.append('later'))
    time.sleep(0.3)
    if ran != ['later']: bad.append((name, ran))
print(bad); print('PASS' if not bad else 'FAIL'); sys.exit(1 if bad else 0)
