# known finding: n-ary builtins dispatch on their first operand only
import sc3; sc3.init('nrt'); from sc3.all_nrt import *
from sc3.base import builtins as bi
from sc3.base.functions import function
f = function(lambda: 7)
for expr in ('bi.clip(5, f, 10)', 'bi.clip(1, [0, 1], 5)'):
    try:
        print(expr, '->', eval(expr))
    except Exception as e:
        print(expr, 'raises', type(e).__name__)
