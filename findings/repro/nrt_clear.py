"""C10: clock.clear() removes the clock's pending tasks in RT and does nothing in NRT."""
import sys, subprocess, json
PROG = r'''
import sys, json, time
mode, which = sys.argv[1], sys.argv[2]
import sc3
sc3.init(mode)
from sc3.base.main import main
from sc3.base.clock import SystemClock, TempoClock, AppClock
from sc3.base.stream import routine
log = []
def prog():
    t0 = main.current_tt._seconds
    clock = {'system': SystemClock, 'tempo': TempoClock(1), 'app': AppClock}[which] if which != 'tempo' else TempoClock(1)
    @routine
    def a():
        for i in range(6):
            log.append(('a', i, round(main.current_tt._seconds - t0, 1)))
            yield 0.2
    @routine
    def b():
        yield 0.5
        clock.clear()
        log.append(('cleared', round(main.current_tt._seconds - t0, 1)))
    a.play(clock); b.play(SystemClock if which == 'tempo' else TempoClock(1))
if mode == 'nrt':
    routine(prog).play()
    main.process()
else:
    SystemClock.sched(0, lambda: prog())
    time.sleep(1.8)
print(json.dumps(log))
'''
rc = 0
for which in ('system', 'tempo'):
    out = {}
    for mode in ('nrt', 'rt'):
        r = subprocess.run([sys.executable, '-W', 'ignore', '-c', PROG, mode, which], capture_output=True, text=True, timeout=60)
        try:
            out[mode] = json.loads(r.stdout.strip().splitlines()[-1])
        except Exception:
            print(mode, 'ERR', r.stdout[-300:], r.stderr[-800:]); sys.exit(2)
    print(which, out)
    if out['nrt'] != out['rt']:
        print('FAIL: NRT and RT disagree for', which); rc = 1
print('PASS' if rc == 0 else 'FAIL')
sys.exit(rc)
