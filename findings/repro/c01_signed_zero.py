"""C01 known finding: -0.0 and 0.0 are one constant of a definition (float dict key)."""
import sys, struct
import sc3
sc3.init('nrt')
from sc3.synth.synthdef import SynthDef
from sc3.synth.ugens import SinOsc, Out
def g():
    Out.ar(0, SinOsc.ar(440, 0.0).atan2(-0.0))
sd = SynthDef('z', g)
consts = list(sd._constants)
signs = [struct.pack('>f', c) for c in consts if c == 0.0]
print('constants:', consts)
ok = len(signs) == 2
print('PASS' if ok else 'FAIL: only one zero constant is emitted, the sign of -0.0 is lost')
sys.exit(0 if ok else 1)
