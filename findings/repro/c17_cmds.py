"""C17: /b_read argument order of Buffer.cue; a dict of synth arguments with a list value."""
import sys
import sc3
sc3.init('nrt')
from sc3.base.main import main
from sc3.synth.server import Server
from sc3.synth.buffer import Buffer
from sc3.synth.node import Synth
bad = []
b = Buffer(32768, 1)
b.cue('/tmp/x.wav', 100)
try:
    x = Synth('default', {'freq': [1, 2], 'amp': 0.1})
except Exception as e:
    bad.append(('Synth with a dict holding a list value', repr(e)))
score = main.process()
msgs = [e[1] for e in score.list]
rd = [m for m in msgs if m[0] == '/b_read'][0]
if rd[3:7] != [100, 32768, 0, True]: bad.append(('/b_read fileStart, numFrames, bufStart, leaveOpen', rd[3:7]))
sn = [m for m in msgs if m[0] == '/s_new']
if sn and sn[0][5:] != ['freq', '[', 1, 2, ']', 'amp', 0.1]: bad.append(('/s_new controls', sn[0][5:]))
print('FAIL ' + repr(bad) if bad else 'PASS'); sys.exit(1 if bad else 0)
