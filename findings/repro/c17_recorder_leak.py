# stopping a recording must give the recorder's buffer number back to the allocator
import sc3; sc3.init('nrt'); from sc3.all_nrt import *
from sc3.base.main import main
from sc3.synth.server import Server
s = Server.default if hasattr(Server, 'default') else s
rec = s.recorder
rec.prepare('/tmp/c17_rec_probe.wav', 2)
class _Stub:
    is_playing = False
    def disable(self): pass
rec._record_node = _Stub(); rec._responder = _Stub()
before = [b.address for b in s._buffer_allocator.blocks()]
rec._stop()
after = [b.address for b in s._buffer_allocator.blocks()]
print(before, after)
assert before and not after, (before, after)
print('PASS')
