"""C19: the server format of an envelope follows its current levels/times (no stale cache: range() copies, duration setter)."""
import sys
import sc3
sc3.init('nrt')
from sc3.synth.envelope import Env
bad = []
e = Env([0, 1, 0], [1, 1])
f0 = e._envgen_format()
r = e.range(0, 2)
fr = r._envgen_format()[0]
if [fr[0], fr[4], fr[8]] != [0, 2, 0]: bad.append(('range() copy encodes', [fr[0], fr[4], fr[8]]))
e.duration = 4
fd = e._envgen_format()[0]
if [fd[5], fd[9]] != [2.0, 2.0]: bad.append(('after duration = 4 the segment times are', [fd[5], fd[9]]))
if abs(e._at(2.0) - 1.0) > 1e-9: bad.append(('_at(2.0) after duration = 4', e._at(2.0)))
print('FAIL ' + repr(bad) if bad else 'PASS'); sys.exit(1 if bad else 0)
