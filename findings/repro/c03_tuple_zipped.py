# known finding: ChannelList arithmetic zips a tuple operand like a list (the constructors keep tuples opaque)
import sc3; sc3.init('nrt'); from sc3.all_nrt import *
from sc3.synth.ugen import ChannelList
res = {}
def f():
    a, b = SinOsc.ar(1), SinOsc.ar(2)
    r = ChannelList([a, b]) * (1, 2)
    res['r'] = r
    Out.ar(0, a)
SynthDef('t', f)
r = res['r']
print(r)
zipped = r[0].__class__.__name__ == 'SinOsc' and r[1].inputs[1] == 2
print('tuple zipped channel-wise:', zipped)
