# foreign units are refused also when the reader's own check is overridden (T2K) and when the unit is not a UGen (LocalBuf)
import sc3; sc3.init('nrt'); from sc3.all_nrt import *
from sc3.synth.ugens.line import T2K
from sc3.synth.ugens.bufio import LocalBuf, PlayBuf
keep = {}
def a():
    keep['sin'] = SinOsc.ar(1); keep['buf'] = LocalBuf.new(512, 1); Out.ar(0, keep['sin'])
SynthDef('a', a)
bad = []
for name, fn in (('t2k', lambda: Out.kr(0, T2K.kr(keep['sin']))), ('localbuf', lambda: Out.ar(0, PlayBuf.ar(1, keep['buf']) + WhiteNoise.ar()))):
    try:
        sd = SynthDef(name, fn); bad.append((name, [u.name for u in sd._children]))
    except ValueError as e:
        print(name, 'refused:', str(e)[:70])
print(bad); assert not bad; print('PASS')
