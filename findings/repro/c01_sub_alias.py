import sc3; sc3.init('nrt'); from sc3.all_nrt import *
def f():
    x = SinOsc.ar(440); n = -(-x)
    Out.ar(0, n - n); Out.ar(1, x)
names = [u.name for u in SynthDef('f', f)._children]
print(names)
assert names.count('Out') == 2, 'Out on bus 0 dropped'
print('PASS')
