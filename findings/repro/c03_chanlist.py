import sys
import sc3
sc3.init('nrt')
from sc3.synth.ugen import ChannelList
from sc3.synth.synthdef import SynthDef
from sc3.synth.ugens import SinOsc, Out
bad = []
b = ChannelList([1, 2]); b += [10, 20, 30]
if list(b) != [11, 22, 31]: bad.append(('+= list', list(b)))
b = ChannelList([1, 2]); b *= 3
if list(b) != [3, 6]: bad.append(('*= 3', list(b)))
b = ChannelList([1, 2]); b *= [2, 3]
if list(b) != [2, 6]: bad.append(('*= list', list(b)))
b = ChannelList([5, 7]); b -= [1, 2]
if list(b) != [4, 5]: bad.append(('-= list', list(b)))
res = []
def g():
    c = ChannelList([SinOsc.ar(1), SinOsc.ar(2)]).madd([10, 100], 0)
    res.append(c)
    Out.ar(0, c)
SynthDef('m', g)
c = res[0]
if len(c) != 2 or any(isinstance(x, list) for x in c): bad.append(('madd with a list', repr(c)[:120]))
print('FAIL ' + repr(bad) if bad else 'PASS'); sys.exit(1 if bad else 0)
