"""C03 known findings: the mapping methods that compute with Python operators on their parameters (explin, expexp,
lincurve, curvelin) raise TypeError for nested list arguments, where linlin/linexp/clip/lag expand recursively."""
import sys
import sc3
sc3.init('nrt')
from sc3.synth.ugen import ChannelList
from sc3.synth.synthdef import SynthDef
from sc3.synth.ugens import SinOsc, Out
bad = []
def g():
    k = SinOsc.kr(1)
    for name, f in (('explin', lambda: ChannelList([k]).explin([[1, 2]], 10, 0, 1)), ('expexp', lambda: ChannelList([k]).expexp([[1, 2]], 10, 1, 2)),
                    ('lincurve', lambda: ChannelList([k]).lincurve([[0, 0.5]], 1, 0, 1)), ('curvelin', lambda: ChannelList([k]).curvelin([[0, 0.5]], 1, 0, 1)),
                    ('linlin (control)', lambda: ChannelList([k]).linlin([[0, 0.5]], 1, 0, 1))):
        try:
            f()
        except Exception as e:
            bad.append((name, type(e).__name__))
    Out.kr(0, k)
SynthDef('m', g)
print('FAIL ' + repr(bad) if bad else 'PASS'); sys.exit(1 if bad else 0)
