"""C18 known findings (not repaired): responders are kept per dispatcher and per path, so (1) a plain and a matching
responder on the same path, and matching responders on different paths, do not fire in overall registration order;
(2) a responder whose function is replaced by an earlier responder of the same message is skipped for that message."""
import sys
import sc3
sc3.init('nrt')
from sc3.base.responders import OscFunc
bad = []
def fire(addr):
    for d in (OscFunc._default_dispatcher, OscFunc._default_matching_dispatcher):
        if d.registered: d([addr, 1], 0.0, None, 57120)
log = []
A = OscFunc(lambda *a: log.append('A'), '/p')
B = OscFunc.matching(lambda *a: log.append('B'), '/p')
C = OscFunc(lambda *a: log.append('C'), '/p')
fire('/p')    # receive functions run in registration order: the exact dispatcher registered first
if log != ['A', 'B', 'C']: bad.append(('plain/matching/plain on one path', list(log)))
for r in (A, B, C): r.free()
log.clear()
A = OscFunc.matching(lambda *a: log.append('A'), '/b3/1')
B = OscFunc.matching(lambda *a: log.append('B'), '/b3/2')
C = OscFunc.matching(lambda *a: log.append('C'), '/b3/1')
OscFunc._default_matching_dispatcher(['/b3/*', 1], 0.0, None, 57120)
if log != ['A', 'B', 'C']: bad.append(('matching responders on two paths', list(log)))
for r in (A, B, C): r.free()
log.clear()
B = None
def a_func(*a):
    log.append('a'); B.func = lambda *x: log.append('b2')
A = OscFunc(a_func, '/q')
B = OscFunc(lambda *a: log.append('b1'), '/q')
OscFunc._default_dispatcher(['/q', 1], 0.0, None, 57120)
if len(log) != 2: bad.append(('function of a later responder replaced during dispatch', list(log)))
print('FAIL ' + repr(bad) if bad else 'PASS'); sys.exit(1 if bad else 0)
