"""C16: node ids must lie in the requesting client's id range and never meet another client's ids.
At the pinned commit num_ids was 2**25 - 1 while alloc() prefixes user << 26 and wraps at 2**26 - 1:
client 1's first id (67109864) lay outside [id_offset, id_offset + num_ids) = [33554431, 67108862), and client 0's
last id before wrap-around (67108863) was client 2's default group id (2 * num_ids + 1)."""
import sys
import sc3
sc3.init('nrt')
from sc3.synth._engine import NodeIDAllocator
bad = []
for user in (0, 1, 2, 5, 31):
    a = NodeIDAllocator(user, 1000)
    lo, hi = a.id_offset(), a.id_offset() + a.num_ids
    ids = [a.alloc() for _ in range(3)]
    a._temp = 0x03FFFFFF          # last id before wrap-around
    ids += [a.alloc(), a.alloc()]
    for i in ids:
        if not lo <= i < hi:
            bad.append((user, i, (lo, hi)))
    others = {NodeIDAllocator(u).num_ids * u + 1 for u in range(32) if u != user}   # default groups of other clients
    if others & set(ids):
        bad.append((user, 'meets default group of another client', sorted(others & set(ids))))
print('FAIL ' + repr(bad[:6]) if bad else 'PASS')
sys.exit(1 if bad else 0)
