# a unit built for another definition must be refused, not silently dropped together with everything that reads it
import sc3; sc3.init('nrt'); from sc3.all_nrt import *
leak = []
def a(): x = SinOsc.ar(440); leak.append(x); Out.ar(0, x)
SynthDef('a', a)
try:
    sb = SynthDef('b', lambda: Out.ar(0, leak[0] * 0.5))
    print([u.name for u in sb._children], len(sb.as_bytes())); print('FAIL: bytes for a graph that reads a foreign unit'); raise SystemExit(1)
except SystemExit: raise
except Exception as e:
    print('rejected:', type(e).__name__, str(e)[:80])
# the same definition built twice from one function is fine
f = lambda: Out.ar(0, SinOsc.ar(440) * 0.5)
assert SynthDef('c', f).as_bytes() == SynthDef('c', f).as_bytes()
print('PASS')
