# Buffer.setn counted a tuple of values as one value: ['/b_setn', bufnum, 0, 1, (1.0, 2.0, 3.0)] (refused by the encoder);
# Node.setn spreads tuples like lists.
import sc3
sc3.init('nrt')
from sc3.synth.server import Server
from sc3.synth.buffer import Buffer
from sc3.base.main import main
s = Server.default
b = Buffer(16, 1, s)
sent = []
s.addr.send_msg = lambda *a: sent.append(list(a))
b.setn(0, (1.0, 2.0, 3.0))
print(sent[-1])
assert sent[-1] == ['/b_setn', b.bufnum, 0, 3, 1.0, 2.0, 3.0], sent[-1]
