# store(): a refused definition does not truncate the existing file
import os, tempfile
import sc3; sc3.init('nrt'); from sc3.all_nrt import *
d = tempfile.mkdtemp()
good = SynthDef('same', lambda: Out.ar(0, SinOsc.ar(440))); good.store(dir=d)
p = os.path.join(d, 'same.scsyndef'); n = os.path.getsize(p)
def inner(freq=440): return SinOsc.ar(freq)
bad = SynthDef('same', lambda: Out.ar(0, SynthDef.wrap(inner) + SynthDef.wrap(inner)))
try:
    bad.store(dir=d)
except Exception as e:
    print('rejected:', type(e).__name__)
print(n, os.path.getsize(p)); assert os.path.getsize(p) == n
print('PASS')
