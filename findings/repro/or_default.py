"""`x or default` where a falsy x is a legitimate value (fixed: IODesc bus 0, SynthDef prepend=0, TempoClock seconds=0.0)."""
import sys
import sc3
sc3.init('nrt')
from sc3.base.main import main
from sc3.base.clock import TempoClock
from sc3.base.stream import routine
from sc3.synth.synthdef import SynthDef
from sc3.synth.synthdesc import SynthDesc
from sc3.synth.ugens import SinOsc, Out
bad = []
# C02: the description of Out.ar(0, ...) knows its bus
sd = SynthDef('o', lambda: Out.ar(0, SinOsc.ar(440)))
desc = SynthDesc.new_from(sd) if hasattr(SynthDesc, 'new_from') else None
if desc is not None:
    sc = [io.starting_channel for io in desc.outputs]
    if sc != [0.0] and sc != [0]: bad.append(('IODesc starting_channel for bus 0', sc))
# C04: a scalar prepend 0 is a prepended value, not "no prepend"
got = []
def f(a, freq=440):
    got.append(a); Out.ar(0, SinOsc.ar(freq) * 0.1)
sd = SynthDef('p', f, prepend=0)
names = [c.name for c in sd._all_control_names] if hasattr(sd, '_all_control_names') else None
if not (len(got) == 1 and type(got[0]) is int): bad.append(('prepend=0 handed to the function', got, names))
# C12: explicit seconds=0.0 is the base second
res = []
@routine
def r():
    yield 5
    t = TempoClock(1, 0, 0.0)
    res.append(t.beats)
r.play(); main.process()
if res != [5.0]: bad.append(('TempoClock(1, 0, 0.0) created at second 5: beats', res))
print('FAIL ' + repr(bad) if bad else 'PASS'); sys.exit(1 if bad else 0)
