"""C11: (1) next() on a routine from inside its own body is refused and the current thread is restored;
(2) reset() forgets the terminal value recorded by an earlier AlwaysYield."""
import sys
import sc3
sc3.init('nrt')
from sc3.base.main import main
from sc3.base.stream import Routine, RoutineException, StopStream, AlwaysYield
bad = []
holder = {}
def body():
    try:
        holder['r'].next()
        holder['inner'] = 'no exception'
    except RoutineException:
        holder['inner'] = 'refused'
    except Exception as e:
        holder['inner'] = repr(e)
    yield 1
r = Routine(body); holder['r'] = r
try:
    v = r.next()
except Exception as e:
    v = repr(e)
if main.current_tt is not main.main_tt: bad.append(('current thread after re-entrant next()', main.current_tt))
if holder.get('inner') != 'refused' or v != 1: bad.append(('re-entrant next()', holder.get('inner'), v, str(r.state)))
main.current_tt = main.main_tt
n = {'k': 0}
def body2():
    n['k'] += 1
    if n['k'] == 1:
        raise AlwaysYield(5)
    yield 1
r2 = Routine(body2)
a = [r2.next(), r2.next()]
r2.reset()
b = [r2.next()]
try:
    b.append(r2.next())
except StopStream:
    b.append('StopStream')
try:
    b.append(r2.next())
except StopStream:
    b.append('StopStream')
if a != [5, 5] or b != [1, 'StopStream', 'StopStream']: bad.append(('terminal value after reset', a, b))
print('FAIL ' + repr(bad) if bad else 'PASS'); sys.exit(1 if bad else 0)
