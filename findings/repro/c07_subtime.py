"""C07: a negative latency means "immediately" like None: a nested bundle inside an immediate bundle is never "before" it."""
import sys
import sc3
sc3.init('nrt')
from sc3.base.main import main
i = main._osc_interface
bad = []
for parent, child, ok in ((-0.5, -1, True), (-0.5, None, True), (None, -1, True), (-1, 0.2, True), (0.5, 0.2, False), (0.5, None, False), (0.5, -1, False), (0.5, 0.5, True)):
    try:
        i._build_bundle(0.0, [parent, ['/a', 1], [child, ['/b', 2]]]); got = True
    except ValueError:
        got = False
    if got != ok: bad.append((parent, child, 'accepted' if got else 'refused'))
print('FAIL ' + repr(bad) if bad else 'PASS'); sys.exit(1 if bad else 0)
