# UGen.degrad / raddeg / sanitize / snap / softround had no ChannelList sibling: a channel list raised
# (degrad/raddeg: "operator 'None' applied to a UGen", the others AttributeError) where each single unit works.
import sc3
sc3.init('nrt')
from sc3.synth.synthdef import SynthDef
from sc3.synth.ugen import ChannelList
from sc3.synth.ugens import SinOsc, Out, Saw
res = {}
def g():
    a, b = SinOsc.ar(440), Saw.ar(220)
    for m in ('degrad', 'raddeg', 'sanitize', 'snap', 'softround'):
        lst = getattr(ChannelList([a, b]), m)()
        one = [getattr(a, m)(), getattr(b, m)()]
        res[m] = (type(lst).__name__, len(lst), [type(x).__name__ for x in lst] == [type(x).__name__ for x in one])
    Out.ar(0, a)
SynthDef('x', g)
print(res)
assert all(v == ('ChannelList', 2, True) for v in res.values()), res
