# known finding: a datagram cut inside a float argument is padded with zero bytes and dispatched with an invented value
import sc3; sc3.init('nrt'); from sc3.all_nrt import *
from sc3.base._osclib import OscMessageBuilder, OscMessage
b = OscMessageBuilder('/x'); b.add_arg(1.5); d = b.build().dgram
cut = d[:-2]
try:
    print('parsed:', OscMessage(cut).params)
except Exception as e:
    print('rejected:', type(e).__name__)
