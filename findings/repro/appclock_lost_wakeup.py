import warnings, threading, time, sys, os
warnings.simplefilter('ignore')
import logging; logging.disable(logging.CRITICAL)
import sc3
sc3.init('rt')
from sc3.base.clock import AppClock
time.sleep(0.3)
real = AppClock._tick_cond
gate = threading.Event(); arrived = threading.Event(); armed = [False]
class Stall:
    def __enter__(s):
        if armed[0] and threading.current_thread() is AppClock._thread:
            armed[0] = False
            arrived.set(); gate.wait()       # hold the clock thread between its two with-blocks
        return real.__enter__()
    def __exit__(s, *a): return real.__exit__(*a)
    def wait(s, t=None): return real.wait(t)
    def notify(s, n=1): return real.notify(n)
AppClock._tick_cond = Stall()
ran = []
armed[0] = True
AppClock.sched(0, lambda: ran.append('dummy'))   # wakes the thread; it ticks (runs dummy), then stalls before taking _tick_cond
arrived.wait(2)
AppClock.sched(0, lambda: ran.append('task'))    # enqueued + notified inside the window: nobody is waiting yet
gate.set()                                       # clock thread now waits with the stale (None) timeout
time.sleep(1.5)
print('ran after 1.5 s:', ran, '-> task with delay 0 still pending:', 'task' not in ran)
AppClock.sched(0, lambda: ran.append('later'))   # an unrelated later scheduling finally wakes it
time.sleep(0.5)
print('after unrelated sched:', ran)
sys.stdout.flush(); os._exit(0)
