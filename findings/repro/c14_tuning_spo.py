# degree -> midinote for tunings whose length is not 12: tuning values are semitones, so the steps per octave are 12 * log2(ratio)
import sc3; sc3.init('nrt'); from sc3.all_nrt import *
from sc3.seq.scale import Scale, Tuning
from sc3.seq.event import event
bad = []
for n, deg, want in ((24, 12, 66.0), (24, 24, 72.0), (24, 1, 60.5), (19, 19, 72.0), (12, 7, 67.0)):
    got = event({'scale': Scale.chromatic(Tuning.et(n)), 'degree': deg})('midinote')
    if abs(got - want) > 1e-9: bad.append((n, deg, got, want))
got = event({'scale': Scale.chromatic(Tuning.et(19)), 'degree': 18})('midinote')
if abs(got - (60 + 18 * 12 / 19)) > 1e-9: bad.append((19, 18, got))
print(bad); assert not bad; print('PASS')
