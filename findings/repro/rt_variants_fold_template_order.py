import warnings, threading, time, sys, functools
warnings.simplefilter('ignore')
import logging; logging.disable(logging.CRITICAL)
import sc3
sc3.init('rt')
from sc3.base.main import main
from sc3.base.clock import SystemClock, AppClock, TempoClock
from sc3.base.responders import OscFunc
from sc3.synth.synthdef import SynthDef
from sc3.synth.synthdesc import SynthDesc
from sc3.synth.ugens import *
from sc3.synth.ugen import ChannelList
import io

# 1 handler raising
def boom(): raise RuntimeError('x')
SystemClock.sched(0, boom)
time.sleep(0.3)
print('1 SystemClock thread alive after partial task raising:', SystemClock._thread.is_alive())

# 2 variants
def g(freq=440, amp=0.1): Out.ar(0, SinOsc.ar(freq) * amp)
sd = SynthDef('v', g, variants={'a': {'nope': 1}})
b = bytes(sd.as_bytes())
print('2 variants count field', int.from_bytes(b[-2:], 'big'), 'len', len(b), '(count says 1 variant, nothing follows)')

# 3 fold defaults
import inspect
from sc3.synth import ugen as ugn, _graphparam as gpp
for m in ('fold','clip','wrap','lag','range','exprange','blend','prune','moddif','varlag'):
    s = [str(inspect.signature(getattr(c, m))) for c in (ugn.UGen, ugn.ChannelList) ]
    if s[0]!=s[1]: print('3 signature mismatch', m, s)

# 5 OscArgsMatcher short message
log=[]
r = OscFunc(lambda *a: log.append('tmpl'), '/q', arg_template=[1, 2])
r2 = OscFunc(lambda *a: log.append('plain'), '/q')
dg = main._osc_interface._build_msg(0.0, ['/q', 1]).dgram
main._osc_interface._handle_request(dg, ('127.0.0.1', 9999)); time.sleep(0.3)
print('5 short msg with template first:', log, 'sysclock alive', SystemClock._thread.is_alive())
r.free(); r2.free()

# 4 set order
for order in (('m','e'), ('e','m')):
    log=[]
    rs=[]
    for k in order:
        if k=='m': rs.append(OscFunc.matching(lambda *a: log.append('m'), '/z'))
        else: rs.append(OscFunc(lambda *a: log.append('e'), '/z'))
    dg = main._osc_interface._build_msg(0.0, ['/z', 1]).dgram
    main._osc_interface._handle_request(dg, ('127.0.0.1', 9999)); time.sleep(0.3)
    print('4 registration order', order, 'invocation order', log)
    for x in rs: x.free()
sys.stdout.flush()
import os; os._exit(0)
