"""C14: the pitch values of a tuning reach the degree -> midinote chain (degree_to_key returns the tuning value of the
scale degree, not the degree's index in the tuning)."""
import sys
import sc3
sc3.init('nrt')
from sc3.seq.scale import Scale, Tuning
from sc3.seq.event import event
j = Tuning([0, 1.1173, 2.0391, 3.1564, 3.8631, 4.9804, 5.9022, 7.0196, 8.1369, 8.8436, 10.176, 10.8827], 2.0, name='just')
bad = []
m = event(degree=2, scale=Scale([0, 2, 4, 5, 7, 9, 11], j))('midinote')
if abs(m - 63.8631) > 1e-6: bad.append(('degree 2 of a just major scale', m))
for d, want in ((0, 60.0), (2, 64.0), (7, 72.0), (-1, 59.0), (9, 76.0)):
    m = event(degree=d)('midinote')
    if abs(m - want) > 1e-9: bad.append(('ET degree', d, m))
print('FAIL ' + repr(bad) if bad else 'PASS'); sys.exit(1 if bad else 0)
