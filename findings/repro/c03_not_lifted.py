# ChannelList.not_() lifts per channel like UGen.not_()
import sc3; sc3.init('nrt'); from sc3.all_nrt import *
from sc3.synth.ugen import ChannelList
res = {}
def f():
    a, k = SinOsc.ar(1), SinOsc.kr(1)
    res['one'] = a.not_(); res['lst'] = ChannelList([a, k]).not_()
    Out.ar(0, a)
SynthDef('t', f)
print(type(res['one']).__name__, [type(x).__name__ for x in res['lst']])
assert all(type(x).__name__ == 'UnaryOpUGen' for x in res['lst'])
from sc3.base.functions import function
assert function(lambda: 0).not_()() is True
print('PASS')
