# a task that returns float('inf') (the "wait forever" idiom) must not kill or starve the clock: later tasks still run
import sys, time, threading
mode = sys.argv[1] if len(sys.argv) > 1 else 'rt'
import sc3; sc3.init(mode)
if mode == 'nrt':
    from sc3.all_nrt import *
else:
    from sc3.all import *
from sc3.base.main import main
from sc3.base.clock import SystemClock, AppClock, TempoClock
bad = []
for name, clk in (('SystemClock', SystemClock), ('AppClock', AppClock), ('TempoClock', TempoClock(10))):
    ran = []
    clk.sched(0.01, lambda: (ran.append('inf'), float('inf'))[1])
    @routine
    def r():
        ran.append('r0'); yield float('inf'); ran.append('never')
    r.play(clk)
    clk.sched(0.5 if isinstance(clk, TempoClock) else 0.05, lambda: ran.append('later'))
    if mode == 'nrt':
        try: main.process()
        except Exception as e: bad.append((name, 'process raised', repr(e)))
        main.reset()
    else:
        time.sleep(0.3)
        clk.sched(0.5 if isinstance(clk, TempoClock) else 0.05, lambda: ran.append('after'))
        time.sleep(0.3)
        if 'after' not in ran:
            bad.append((name, 'clock dead', ran))
    if 'later' not in ran or 'never' in ran:
        bad.append((name, ran))
print(bad); print('PASS' if not bad else 'FAIL'); sys.exit(1 if bad else 0)
