# for i in $(seq 8); do /venv/bin/python -W ignore alloc_choice_order.py; done | sort | uniq -c
# ContiguousBlockAllocator._find_available chooses among freed blocks with bi.choice(list(<set of id-hashed blocks>)):
# even with an explicit random seed the address returned differs between fresh runs of the same program.
import logging; logging.disable(logging.CRITICAL)
from sc3.all import *
from sc3.synth._engine import ContiguousBlockAllocator
from sc3.base import main as _libsc3

a = ContiguousBlockAllocator(64)
addrs = [a.alloc(1) for _ in range(12)]
for x in addrs[1::2]:
    a.free(x)          # six non-adjacent free blocks of size 1

@routine
def r():
    _libsc3.main.current_tt.rand_seed = 1234
    print([a.alloc(1) for _ in range(3)])
    main.resume()
r.play()
main.wait(2)
