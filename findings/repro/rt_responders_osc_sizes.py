import warnings, threading, time, sys
warnings.simplefilter('ignore')
import logging; logging.disable(logging.CRITICAL)
import sc3
sc3.init('rt')
from sc3.base.main import main
from sc3.base import _osclib as oli
from sc3.base._oscmatch import osc_rematch_pattern
from sc3.base.netaddr import NetAddr
from sc3.base.responders import OscFunc
from sc3.base.systemactions import ServerBoot
from sc3.synth.synthdef import SynthDef
from sc3.synth.ugens import *
from sc3.synth.envelope import Env
import struct

# 1 LocalOut.kr
try:
    def g():
        LocalOut.kr(SinOsc.kr(1))
    SynthDef('t', g); print('1 LocalOut.kr ok')
except Exception as e: print('1 LocalOut.kr FAIL', repr(e))

# 3 prefix match
print('3 rematch("/foo","/foobar") =', osc_rematch_pattern('/foo', '/foobar'), ' star across slash:', osc_rematch_pattern('/a*', '/ab/c'))

# 8 size prediction
a = NetAddr('127.0.0.1', 57110)
for msg in (['/d_recv', b'abcde'], ['/x', 'ñññññ'], ['/x', True, None, 1.5]):
    real = main._osc_interface._build_msg(0.0, list(msg)).size
    print('8 predicted', a._calc_msg_dgram_size(msg), 'real', real, msg)
for msg in (['/x', []], ['/x', [0.1, ['/y', 1]]]):
    try: print('8b', a._calc_msg_dgram_size(msg))
    except Exception as e: print('8b predictor raises', repr(e), 'encoder size', main._osc_interface._build_msg(0.0, list(msg)).size)
try: print('8c', a._calc_bndl_dgram_size([[None, ['/y', 1]]]))
except Exception as e: print('8c predictor raises', repr(e))

# 9 clump in sync path
els = [['/n_set', 1000, 'freq', 440.0]] * 4000
size = 65504 - 36
cl = a._clump_bundle(els, size)
print('9 clumps', len(cl), [main._osc_interface._build_bundle(0.0, [0.0, *c]).size for c in cl][:3], 'limit', 65504)

# 5 ServerAction.remove
f = lambda s: None
ServerBoot.add('x', f); ServerBoot.remove('x', f); print('5 still registered after remove:', f in ServerBoot._servers['x'])

# 11 Env sqr
for nm in ('sqr', 'squared', 'sqrt'):
    try: print('11', nm, Env._shape_number(nm))
    except Exception as e: print('11', nm, 'raises', repr(e))

# 4 one shot skipping
log = []
r1 = OscFunc(lambda *a: log.append('r1'), '/p'); r1.one_shot()
r2 = OscFunc(lambda *a: log.append('r2'), '/p')
r3 = OscFunc(lambda *a: log.append('r3'), '/p')
dg = main._osc_interface._build_msg(0.0, ['/p', 1]).dgram
main._osc_interface._handle_request(dg, ('127.0.0.1', 9999))
time.sleep(0.3)
print('4 after msg1:', log)
for r in (r2, r3): r.free()

# 2 negative size loop
dg = b'#bundle\x00' + struct.pack('>Q', 1) + struct.pack('>i', -4)
t = threading.Thread(target=lambda: main._osc_interface._handle_request(dg, ('127.0.0.1', 9999)), daemon=True)
t.start(); t.join(2.0)
print('2 negative-size bundle: handler still running after 2s:', t.is_alive())
sys.stdout.flush()
import os; os._exit(0)
