# Pdur(2.5, ...) over events with an int delta (dur: 1, stretch: 1) must last 2.5, not 2.0
import sc3; sc3.init('nrt'); from sc3.all_nrt import *
from sc3.base.main import main
p = Pseq([Pdur(2.5, Pbind({'midinote': Pseq([60, 61, 62, 63]), 'dur': 1, 'stretch': 1})),
          Pbind({'midinote': Pseq([80]), 'dur': 1})])
p.play()
score = main.process()
times = [b[0] for b in score.list for m in b[1:] if m[0] == '/s_new']
print(times)
assert times[:4] == [t + times[0] for t in (0.0, 1.0, 2.0, 2.5)], times
print('PASS')
