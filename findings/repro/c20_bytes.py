"""C20: the bytes handed out by as_bytes() cannot be used to change what later calls (and sends) return."""
import sys
import sc3
sc3.init('nrt')
from sc3.synth.synthdef import SynthDef
from sc3.synth.ugens import SinOsc, Out
sd = SynthDef('b', lambda: Out.ar(0, SinOsc.ar(440)))
b1 = sd.as_bytes(); ref = bytes(b1)
try:
    b1[10] = (b1[10] + 1) % 256
except TypeError:
    pass
ok = bytes(sd.as_bytes()) == ref
print('PASS' if ok else 'FAIL: writing into the returned buffer changed the definition bytes'); sys.exit(0 if ok else 1)
