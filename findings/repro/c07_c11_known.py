"""Known findings (not repaired).
C07: a bundle embedded in a message (completion bundle) keeps its relative latency in score.list while score.raw stamps it
     with send instant + latency.
C11: stop()/reset() leave a hung routine registered in the Condition; after it is played again, a later signal() of that
     condition wakes it early from an unrelated wait."""
import sys
import sc3
sc3.init('nrt')
from sc3.base.main import main
from sc3.base.stream import routine, Routine, Condition
from sc3.base.netaddr import NetAddr
from sc3.base import _osclib as oli
bad = []
n = NetAddr('127.0.0.1', 57110)
@routine
def r():
    yield 1
    n.send_msg('/m', 1, [0.25, ['/done', 1]])
r.play()
score = main.process()
entry = [e for e in score.list if e[1][0] == '/m'][0]
listed = entry[1][2][0]
if abs(listed - 1.25) > 1e-9: bad.append(('C07 embedded bundle time in score.list', listed, 'raw has 1.25'))
main.reset()
cond = Condition()
log = []
def body():
    if not log:
        log.append('wait'); yield from cond.wait()
    else:
        log.append(('replayed at', main.current_tt._seconds)); yield 5
        log.append(('woke at', main.current_tt._seconds))
x = Routine(body)
@routine
def ctl():
    x.play(); yield 1
    x.stop(); x.reset(); x.play(); yield 1      # x now sleeps on `yield 5` until 6
    cond.test = True; cond.signal(); yield 10
ctl.play(); main.process()
woke = [e for e in log if isinstance(e, tuple) and e[0] == 'woke at']
if not woke or abs(woke[0][1] - 6.0) > 1e-9: bad.append(('C11 routine sleeping until 6.0 woke at', woke))
print('FAIL ' + repr(bad) if bad else 'PASS'); sys.exit(1 if bad else 0)
