"""C15 numeric laws / n-ary lifting that failed at the pinned commit (fixed by f547a61, edfece7, 7a6e13b, 3fa9397).
Run: PYTHONPATH=/repo /venv/bin/python -W ignore findings/repro/c15_kernel_laws.py"""
import sys
import sc3
sc3.init('nrt')
import sc3.base.builtins as bi
from sc3.base.functions import function
bad = []
if abs(bi.cpsoct(bi.octcps(4.0)) - 4.0) > 1e-9: bad.append(('cpsoct(octcps(4))', bi.cpsoct(bi.octcps(4.0))))
if not (0.5 <= bi.wrap(3, 0.5, 2.5) <= 2.5): bad.append(('wrap(3, .5, 2.5)', bi.wrap(3, 0.5, 2.5)))
if bi.fold(3, 0.5, 2.5) != 2.0: bad.append(('fold(3, .5, 2.5)', bi.fold(3, 0.5, 2.5)))
for f in (bi.round, bi.roundup, bi.trunc):
    r = f(5, 1.5)
    if abs(r / 1.5 - round(r / 1.5)) > 1e-9: bad.append((f.__name__ + '(5, 1.5)', r))
f = function(lambda x: x); g = function(lambda x: x * 2)
try:
    if f.clip(g + 1, 100)(5) != 11: bad.append(('f.clip(g + 1, 100)(5)', f.clip(g + 1, 100)(5)))
except TypeError as e:
    bad.append(('f.clip(g + 1, 100)(5)', repr(e)))
print('FAIL ' + repr(bad) if bad else 'PASS')
sys.exit(1 if bad else 0)
