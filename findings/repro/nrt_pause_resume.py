"""C10: pause + resume while the routine's next wake-up is still pending.
RT queues hold one entry per task (TaskQueue.add replaces); NRT wraps each scheduling in a new ClockTask, so the old
wake-up stays and the routine runs on two chains."""
import sys, subprocess, json
PROG = r'''
import sys, json, time
mode = sys.argv[1]
import sc3
sc3.init(mode)
from sc3.base.main import main
from sc3.base.clock import SystemClock
from sc3.base.stream import routine
log = []
def prog():
    t0 = main.current_tt._seconds
    @routine
    def a():
        for i in range(4):
            log.append(('a', i, round(main.current_tt._seconds - t0, 2)))
            yield 0.4
    @routine
    def b():
        yield 0.1
        a.pause()
        yield 0.1
        a.resume()
    a.play(); b.play()
if mode == 'nrt':
    routine(prog).play()
    main.process()
else:
    SystemClock.sched(0, lambda: prog())
    time.sleep(2.0)
print(json.dumps(log))
'''
out = {}
for mode in ('nrt', 'rt'):
    r = subprocess.run([sys.executable, '-W', 'ignore', '-c', PROG, mode], capture_output=True, text=True, timeout=60)
    try:
        out[mode] = json.loads(r.stdout.strip().splitlines()[-1])
    except Exception:
        print(mode, 'ERR', r.stdout[-300:], r.stderr[-800:]); sys.exit(2)
print(out)
ok = out['nrt'] == out['rt']
print('PASS' if ok else 'FAIL: NRT and RT disagree')
sys.exit(0 if ok else 1)
